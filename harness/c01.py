"""C01 — Incremental recomputation equals recomputation from scratch."""
import random
from datetime import datetime

from harness import model as M, values as V, edits as E
from harness.common import traffic_syms, gt_sets
from harness.c10 import RANGES

PROPERTY = "C01"
LEVEL = "model_checking"
BOUNDS = {"hours_per_series": "N=2 (thorough 3)", "skeletons": "T1,T2,T3,T4,T5,T7,T8,T9,TX", "inductive_invariant": "after every edit on skeletons without a job shared between usage patterns, the live "
          "system has the same value-level dependency graph (ancestors/children by object name and attribute) as the fresh "
          "build: a history of any length over the edit menu reduces to single steps from fresh-equivalent states",
          "history_depth": "<=3 edits (link there-back-there, two objects leaving a shared target in turn; otherwise 2) "
          "(every edit followed by its inverse; link edit followed by numeric edit; seeded sample of other pairs)",
          "edit_menu": "numeric assignment per class/parameter, starts replacement (values/length/start date), "
          "timezone, server_type, fixed_nb_of_instances set/unset, link re-pointing, list assignment and mutators, "
          "grouped ModelingUpdate, lists re-assigned with the same members (order / multiplicity)",
          "mixed_histories": "T9: 9 histories of 3-4 steps interleaving accepted edits with dated simulations (set/reset) and edits "
                             "whose recomputation raises; values and graph compared with the fresh build after every step"}
ASSUMPTIONS = ["a fixed instance count of exactly 0 is not assigned (the model reads 0 and 'no value' as equal and skips it)",
               "claims concern accepted edits: a path on which the live edit raises ends there (C14/C15 cover those)",
               "numeric new values differ from the old ones except in the dedicated no-op scripts",
               "objects compared: those reachable from the system in the final specification"]


def _range(param):
    lo, hi, strict, nice = RANGES.get(param, (0, 10 ** 6, False, None))
    return lo, hi, strict, nice


def _sym_for(spec, slot_obj, param):
    d, un = E.param_info(spec, slot_obj, param)
    lo, hi, strict, nice = _range(param)
    if nice is None:
        nice = (max(d / 2, 0.01), d * 2 + 1) if d is not None else (1, 9)
    return dict(lo=lo, hi=hi, lo_strict=strict, nice=nice)


def collect_slots(spec, script, acc=None):
    acc = {} if acc is None else acc
    for e in script:
        if e["k"] == "num":
            acc[f"{e['obj']}.{e['param']}"] = _sym_for(spec, e["obj"], e["param"])
        elif e["k"] == "group":
            collect_slots(spec, e["edits"], acc)
        elif e["k"] == "sim":
            collect_slots(spec, e["script"], acc)
    return acc


def resolve(ctx, env0, env, spec, e, idx):
    """JSON edit -> primitive edit of harness.edits (creating the symbolic new values)"""
    k = e["k"]
    if k == "num":
        slot = f"{e['obj']}.{e['param']}"
        d, un = E.param_info(spec, e["obj"], e["param"])
        if e.get("value") == "old":
            val = env0.get(slot, d)
        elif "value" in e:
            val = e["value"]
        else:
            val = env.fresh(f"new{idx}.{slot}", **_sym_for(spec, e["obj"], e["param"]))
            if not e.get("may_equal"):
                ctx.assume(val != env.get(slot, d))
        return ("num", e["obj"], e["param"], val)
    if k == "starts":
        n = e["n"]
        if e.get("value") == "old":
            o = spec0_starts = e["old"]
            vals = [env0.get(f"{e['pat']}.starts[{i}]", None) for i in range(o["n"])]
            return ("starts", e["pat"], vals, datetime.fromisoformat(o["start"]))
        vals = [env.fresh(f"new{idx}.{e['pat']}.starts[{i}]", lo=0, hi=1000, nice=(1, 40)) for i in range(n)]
        ctx.assume(vals[0] != env.get(f"{e['pat']}.starts[0]", None))   # not a no-op
        return ("starts", e["pat"], vals, datetime.fromisoformat(e["start"]))
    if k == "tz":
        return ("tz", e["obj"], e["zone"])
    if k == "server_type":
        return ("server_type", e["obj"], e["t"])
    if k == "fixed":
        v = e["val"]
        if v == "sym":
            v = env.fresh(f"new{idx}.{e['obj']}.fixed", lo=0, lo_strict=True, hi=10 ** 6, nice=(1, 30))
            coll = E._coll_of(spec, e["obj"])
            cur = spec[coll][e["obj"]].get("fixed_nb_of_instances")
            if cur is not None:
                ctx.assume(v != env.get(f"{e['obj']}.fixed_nb_of_instances", cur))   # not a no-op
        return ("fixed", e["obj"], v)
    if k == "link":
        return ("link", e["obj"], e["attr"], e["target"])
    if k == "list_assign":
        return ("list_assign", e["obj"], e["attr"], e["names"])
    if k == "list_op":
        return ("list_op", e["obj"], e["attr"], e["op"], e["args"])
    if k == "group":
        return ("group", [resolve(ctx, env0, env, spec, s, f"{idx}_{i}") for i, s in enumerate(e["edits"])])
    raise ValueError(k)


def totals_snapshot(system):
    return ({k: V.phys(v) for k, v in system.total_energy_footprint_sum_over_period.items()},
            {k: V.phys(v) for k, v in system.total_fabrication_footprint_sum_over_period.items()})


def check_reference(ctx, system, snap, which, label):
    en, fab = snap
    got_en = getattr(system, f"{which}_total_energy_footprints_sum_over_period")
    got_fab = getattr(system, f"{which}_total_fabrication_footprints_sum_over_period")
    for got, exp, kind in ((got_en, en, "energy"), (got_fab, fab, "fabrication")):
        ctx.require(set(got.keys()) == set(exp.keys()), f"{label}: {which}_total_{kind} categories")
        for cat in exp:
            if cat in got:
                V.compare_phys(ctx, got[cat], exp[cat], f"{label}: {which}_total_{kind}[{cat}] = totals {'at creation' if which == 'initial' else 'just before the edit'}")


def graph_signature(objs, names):
    """value-level dependency graph by (object name, attribute[, dict key]) — independent of ids and identities"""
    from efootprint.abstract_modeling_classes.explainable_object_dict import ExplainableObjectDict
    from efootprint.abstract_modeling_classes.explainable_object_base_class import ExplainableObject
    names_of = {id(o): n for n, o in objs.items()}

    def ref(x):
        c = x.modeling_obj_container
        if c is None:
            return ("<detached>", x.label or "")
        key = ""
        cur = c.__dict__.get(x.attr_name_in_mod_obj_container)
        if isinstance(cur, dict):
            ks = [getattr(k, "name", str(k)) for k, e in cur.items() if e is x]
            key = ks[0] if ks else "<not in dict>"
        return (names_of.get(id(getattr(c, "_value", c)), c.name), x.attr_name_in_mod_obj_container, key)
    sig = {}
    for n in names:
        o = objs.get(n)
        if o is None:
            continue
        for attr, v in o.__dict__.items():
            if attr.startswith("previous_") or attr.startswith("initial_"):
                continue
            entries = [(getattr(k, "name", str(k)), e) for k, e in v.items()] if isinstance(v, ExplainableObjectDict) else \
                ([("", v)] if isinstance(v, ExplainableObject) else [])
            for k, e in entries:
                sig[(n, attr, k)] = (sorted(set(ref(a) for a in e.direct_ancestors_with_id)),
                                     sorted(set(ref(c) for c in e.direct_children_with_id)))
    return sig


def compare_graphs(ctx, live, fresh, names, label):
    """inductive invariant: the edited system has the same dependency graph as the freshly built one, so a history of
    any length reduces to single steps from fresh states"""
    a, b = graph_signature(live, names), graph_signature(fresh, names)
    ctx.require(set(a) == set(b), f"{label}: same attached values as the fresh system", str(sorted(set(a) ^ set(b)))[:200])
    for k in a:
        if k in b:
            ctx.require(a[k][0] == b[k][0], f"{label}: {k[0]}.{k[1]}{'[' + k[2] + ']' if k[2] else ''} has the ancestors of the fresh system",
                        f"{a[k][0]} vs {b[k][0]}"[:300])
            ctx.require(a[k][1] == b[k][1], f"{label}: {k[0]}.{k[1]}{'[' + k[2] + ']' if k[2] else ''} has the children of the fresh system",
                        f"{a[k][1]} vs {b[k][1]}"[:300])


def compare_live_fresh(ctx, live, spec, env, label, graph=False):
    try:
        fresh = M.build(spec, env)
    except ValueError:
        raise
    except Exception as e:  # noqa - the model reached by the edits cannot even be built from scratch
        if type(e).__name__ in ("PathAbort", "EngineError"):
            raise
        raise ValueError(f"fresh build failed with {type(e).__name__}: {str(e)[:160]}")
    gt = gt_sets(spec)
    names = set(gt["patterns"] + gt["jobs"] + gt["servers"] + gt["storages"] + gt["networks"] + gt["steps"]
                + gt["journeys"] + gt["devices"] + gt["countries"] + ["system"])
    V.compare_systems(ctx, live, fresh, label, names=names)
    if graph:
        compare_graphs(ctx, live, fresh, names, label + " [graph]")
    return fresh


def h_script(ctx, skeleton, script, n=2, args=None, extra_sym=None, graph=False):
    spec = M.SKELETONS[skeleton](n, **(args or {}))
    sym = traffic_syms(spec)
    sym.update(collect_slots(spec, script))
    for slot in (extra_sym or []):
        o, p = slot.split(".")
        sym[slot] = _sym_for(spec, o, p)
    env0 = M.Env(ctx, symbolic=sym)
    live = M.build(spec, env0)
    system = live["system"]
    initial = totals_snapshot(system)
    env = env0
    V.observe_system(ctx, live, "0.")
    for i, je in enumerate(script):
        before = totals_snapshot(system)
        if je["k"] in ("sim", "fail"):
            # interleaved non-edits: a dated what-if simulation switched on and off again, or an edit whose recomputation
            # raises (the model is put back): the live system must still equal the fresh build of the *same* inputs,
            # and so must it after the accepted edits that follow
            _non_edit(ctx, live, spec, env0, env, je, i)
            lab = f"after step {i + 1} ({je['k']})"
            compare_live_fresh(ctx, live, spec, env, lab, graph=graph)
            continue
        e = resolve(ctx, env0, env, spec, je, i)
        spec, env = E.apply(live, spec, env, e)
        lab = f"after edit {i + 1} ({je['k']})"
        try:
            compare_live_fresh(ctx, live, spec, env, lab, graph=graph)
        except ValueError as err:
            ctx.require(False, f"{lab}: the edited state can be built from scratch", str(err)[:200])
            raise
        if not je.get("may_equal"):
            check_reference(ctx, system, before, "previous", lab)
        check_reference(ctx, system, initial, "initial", lab)
        V.observe_system(ctx, live, f"{i + 1}.")


def _non_edit(ctx, live, spec, env0, env, je, i):
    from datetime import timedelta
    from efootprint.abstract_modeling_classes.modeling_update import ModelingUpdate
    from efootprint.abstract_modeling_classes.source_objects import SourceValue
    from efootprint.constants.units import u
    if je["k"] == "sim":
        changes = []
        for k, sub in enumerate(je["script"]):
            e = resolve(ctx, env0, env, spec, sub, 100 * (i + 1) + k)
            o, a = E.attr_of(e)
            changes.append([getattr(live[o], a), E.new_value(env, spec, e)(live)])
        first = min(V.utc_key(ts) for p in gt_sets(spec)["patterns"] for ts in live[p].utc_hourly_usage_journey_starts.value.index)
        try:
            sim = ModelingUpdate(changes, (first + timedelta(hours=je.get("hour", 1))).to_pydatetime())
        except ValueError:
            ctx.count("simulation_refused")
            return
        for t in je.get("toggles", ["set", "reset"]):
            (sim.set_updated_values if t == "set" else sim.reset_values)()
        ctx.count("simulation_toggled")
    else:
        d, un = E.param_info(spec, je["obj"], je["param"])
        try:
            setattr(live[je["obj"]], je["param"], SourceValue(je["value"] * u(env.unit_of(f"{je['obj']}.{je['param']}", un))))
        except Exception as err:  # noqa
            if type(err).__name__ in ("PathAbort", "EngineError"):
                raise
            ctx.count("failed_edit")
            return
        ctx.require(False, f"step {i + 1}: the edit {je['obj']}.{je['param']} = {je['value']} was meant to fail", "it was accepted")


HARNESSES = {"script": h_script}

S0 = "2025-01-01T00:00:00"


def num(obj, param, **kw):
    return dict(k="num", obj=obj, param=param, **kw)


def single_edits(skeleton):
    """menu of single edits available on a skeleton: [(edit, inverse or None)]"""
    m = []
    if skeleton in ("T1", "T2", "T3", "T4", "T5", "T7", "T8"):
        job = "jobA" if skeleton == "T4" else "job"
        step = "step1" if skeleton == "T4" else "step"
        for obj, param in ((job, "data_transferred"), (job, "data_stored"), (job, "request_duration"),
                           (job, "ram_needed"), (job, "compute_needed"), (step, "user_time_spent"),
                           ("srv", "ram"), ("srv", "power"), ("srv", "power_usage_effectiveness"),
                           ("srv", "average_carbon_intensity"), ("srv", "lifespan"), ("srv", "base_ram_consumption"),
                           ("srv", "server_utilization_rate"), ("st", "storage_capacity"),
                           ("st", "data_replication_factor"), ("st", "data_storage_duration"),
                           ("st", "base_storage_need"), ("st", "power_per_storage_capacity"),
                           ("dev", "power"), ("dev", "lifespan"), ("dev", "fraction_of_usage_time"),
                           ("fr", "average_carbon_intensity"), ("net", "bandwidth_energy_intensity")):
            m.append((num(obj, param), num(obj, param, value="old")))
        m.append((dict(k="starts", pat="up", n=2, start=S0), None))
        # NB: a replacement series of another *length* is refused by the model (ExplainableHourlyQuantities.__eq__
        # raises on different lengths inside parse_changes_list); noted in DESIGN.md, not an accepted edit.
        m.append((dict(k="starts", pat="up", n=2, start="2025-01-01T05:00:00"), None))
        m.append((dict(k="tz", obj="fr", zone="America/New_York"), dict(k="tz", obj="fr", zone="Europe/Paris")))
        m.append((dict(k="server_type", obj="srv", t="serverless"), None))
        m.append((dict(k="server_type", obj="srv", t="on-premise"), None))
    return m


def link_edits9():
    """link/list edits on T9 (no job shared between patterns): [(edit, inverse)]"""
    L = lambda o, a, t: dict(k="link", obj=o, attr=a, target=t)  # noqa
    LA = lambda o, a, names: dict(k="list_assign", obj=o, attr=a, names=names)  # noqa
    OP = lambda o, a, op, args: dict(k="list_op", obj=o, attr=a, op=op, args=args)  # noqa
    return [
        (L("job", "server", "srv_alt"), L("job", "server", "srv")),
        (L("srv", "storage", "st_free"), L("srv", "storage", "st")),
        (L("up", "network", "net_alt"), L("up", "network", "net")),
        (L("up", "network", "net2"), L("up", "network", "net")),
        (L("up", "country", "de"), L("up", "country", "fr")),
        (L("up", "country", "my"), L("up", "country", "fr")),
        (L("up", "usage_journey", "uj_alt"), L("up", "usage_journey", "uj")),
        (L("up", "usage_journey", "uj2"), L("up", "usage_journey", "uj")),
        (LA("uj", "uj_steps", ["step3", "step"]), LA("uj", "uj_steps", ["step"])),
        (LA("step", "jobs", ["job", "job_alt"]), LA("step", "jobs", ["job"])),
        (LA("step", "jobs", ["job", "job"]), LA("step", "jobs", ["job"])),
        (LA("up", "devices", ["dev", "dev_alt"]), LA("up", "devices", ["dev"])),
        (LA("system", "usage_patterns", ["up"]), LA("system", "usage_patterns", ["up", "up2"])),
        (OP("uj", "uj_steps", "append", ["step3"]), OP("uj", "uj_steps", "pop", [])),
        (OP("uj", "uj_steps", "insert", [0, "step3"]), OP("uj", "uj_steps", "delitem", [0])),
        (OP("step", "jobs", "extend", [["job_alt", "job"]]), LA("step", "jobs", ["job"])),
        (OP("step", "jobs", "iadd", [["job_alt"]]), OP("step", "jobs", "remove", ["job_alt"])),
        (OP("step", "jobs", "imul", [2]), OP("step", "jobs", "pop", [0])),
        (OP("uj", "uj_steps", "setitem", [0, "step3"]), OP("uj", "uj_steps", "setitem", [0, "step"])),
        (OP("up", "devices", "append", ["dev_alt"]), OP("up", "devices", "remove", ["dev_alt"])),
        (OP("system", "usage_patterns", "pop", []), OP("system", "usage_patterns", "append", ["up2"])),
    ]


def link_edits(skeleton):
    m = []
    if skeleton == "T8":
        m += [(dict(k="link", obj="job", attr="server", target="srv_alt"), dict(k="link", obj="job", attr="server", target="srv")),
              (dict(k="link", obj="srv", attr="storage", target="st_free"), dict(k="link", obj="srv", attr="storage", target="st")),
              (dict(k="link", obj="up", attr="network", target="net_alt"), dict(k="link", obj="up", attr="network", target="net")),
              (dict(k="link", obj="up", attr="network", target="net2"), dict(k="link", obj="up", attr="network", target="net")),
              (dict(k="link", obj="up", attr="country", target="de"), dict(k="link", obj="up", attr="country", target="fr")),
              (dict(k="link", obj="up", attr="country", target="my"), dict(k="link", obj="up", attr="country", target="fr")),
              (dict(k="link", obj="up", attr="usage_journey", target="uj2"), dict(k="link", obj="up", attr="usage_journey", target="uj")),
              (dict(k="link", obj="up2", attr="usage_journey", target="uj_alt"), dict(k="link", obj="up2", attr="usage_journey", target="uj2")),
              (dict(k="list_assign", obj="uj2", attr="uj_steps", names=["step2", "step"]), dict(k="list_assign", obj="uj2", attr="uj_steps", names=["step", "step2"])),
              (dict(k="list_assign", obj="step", attr="jobs", names=["job", "job_alt"]), dict(k="list_assign", obj="step", attr="jobs", names=["job"])),
              (dict(k="list_assign", obj="up", attr="devices", names=["dev", "dev_alt"]), dict(k="list_assign", obj="up", attr="devices", names=["dev"])),
              (dict(k="list_assign", obj="system", attr="usage_patterns", names=["up"]), dict(k="list_assign", obj="system", attr="usage_patterns", names=["up", "up2"])),
              (dict(k="list_op", obj="uj", attr="uj_steps", op="append", args=["step_alt"]), dict(k="list_op", obj="uj", attr="uj_steps", op="pop", args=[])),
              (dict(k="list_op", obj="uj2", attr="uj_steps", op="insert", args=[0, "step_alt"]), dict(k="list_op", obj="uj2", attr="uj_steps", op="delitem", args=[0])),
              (dict(k="list_op", obj="step", attr="jobs", op="extend", args=[["job_alt", "job"]]), dict(k="list_assign", obj="step", attr="jobs", names=["job"])),
              (dict(k="list_op", obj="step", attr="jobs", op="iadd", args=[["job2"]]), dict(k="list_op", obj="step", attr="jobs", op="remove", args=["job2"])),
              (dict(k="list_op", obj="step2", attr="jobs", op="imul", args=[2]), dict(k="list_op", obj="step2", attr="jobs", op="pop", args=[0])),
              (dict(k="list_op", obj="uj2", attr="uj_steps", op="setitem", args=[1, "step_alt"]), dict(k="list_op", obj="uj2", attr="uj_steps", op="setitem", args=[1, "step2"])),
              (dict(k="list_op", obj="up", attr="devices", op="append", args=["dev_alt"]), dict(k="list_op", obj="up", attr="devices", op="remove", args=["dev_alt"])),
              (dict(k="list_op", obj="system", attr="usage_patterns", op="pop", args=[]), dict(k="list_op", obj="system", attr="usage_patterns", op="append", args=["up2"])),
              (dict(k="list_op", obj="uj2", attr="uj_steps", op="pop", args=[0]), dict(k="list_op", obj="uj2", attr="uj_steps", op="insert", args=[0, "step"])),
              ]
    return m


def plan(tier, seed):
    rnd = random.Random(seed)
    p = []
    # single numeric/series/type edits on T1, each followed by its inverse when it has one
    for e, inv in single_edits("T1"):
        p.append(("script", dict(skeleton="T1", script=[e] + ([inv] if inv else []))))
    # shared topologies: the same numeric edits on T2/T3/T4 (sample in quick)
    shared = []
    for sk in ("T2", "T3", "T4", "T5", "T7"):
        for e, inv in single_edits(sk):
            if e["k"] == "num" and e["param"] in ("data_transferred", "request_duration", "user_time_spent",
                                                   "data_stored", "ram", "data_storage_duration", "average_carbon_intensity"):
                shared.append(("script", dict(skeleton=sk, script=[e] + ([inv] if inv else []))))
            elif e["k"] in ("starts", "tz") and sk in ("T2", "T3", "T7"):
                shared.append(("script", dict(skeleton=sk, script=[e])))
    # link and list edits on T8, each with its inverse
    links = [("script", dict(skeleton="T8", script=[e, inv])) for e, inv in link_edits("T8")]
    links9 = [("script", dict(skeleton="T9", script=[e, inv])) for e, inv in link_edits9()]
    follow9 = [("script", dict(skeleton="T9", script=[dict(k="link", obj="job", attr="server", target="srv_alt"), num("srv_alt", "ram")])),
               ("script", dict(skeleton="T9", script=[dict(k="link", obj="up", attr="network", target="net_alt"), num("net_alt", "bandwidth_energy_intensity")])),
               ("script", dict(skeleton="T9", script=[dict(k="link", obj="up", attr="country", target="de"), num("de", "average_carbon_intensity")])),
               ("script", dict(skeleton="T9", script=[dict(k="list_op", obj="step", attr="jobs", op="append", args=["job_alt"]), num("job_alt", "data_transferred")])),
               ("script", dict(skeleton="T9", script=[dict(k="link", obj="srv", attr="storage", target="st_free"), num("st_free", "storage_capacity")])),
               ("script", dict(skeleton="T9", script=[dict(k="list_op", obj="up", attr="devices", op="append", args=["dev_alt"]), num("dev_alt", "power")])),
               ("script", dict(skeleton="T9", script=[dict(k="link", obj="up", attr="usage_journey", target="uj_alt"), num("step_alt", "user_time_spent")])),
               ("script", dict(skeleton="T9", script=[dict(k="list_op", obj="uj", attr="uj_steps", op="append", args=["step3"]), num("job3", "request_duration")])),
               ("script", dict(skeleton="T9", script=[dict(k="group", edits=[num("job", "data_transferred"), dict(k="link", obj="job", attr="server", target="srv_alt")])])),
               ("script", dict(skeleton="T9", script=[num("job", "data_transferred"), num("job2", "data_transferred")])),
               # one update, two structural changes: the second re-points an object the first has just put in the chain
               ("script", dict(skeleton="T9", script=[dict(k="group", edits=[dict(k="list_assign", obj="step2", attr="jobs", names=["job2", "job"]),
                                                                              dict(k="link", obj="job", attr="server", target="srv_alt")])])),
               ("script", dict(skeleton="T9", script=[dict(k="group", edits=[dict(k="list_assign", obj="up", attr="devices", names=["dev_alt"]),
                                                                              dict(k="link", obj="job", attr="server", target="srv_alt")])]))]
    # longer link histories: there-and-back-and-there again, and two objects leaving a shared target in turn
    L_ = lambda o, a, t: dict(k="link", obj=o, attr=a, target=t)  # noqa
    histories = [("script", dict(skeleton="T9", script=[L_("job", "server", "srv_alt"), L_("job", "server", "srv"), L_("job", "server", "srv_alt")])),
                 ("script", dict(skeleton="T9", script=[L_("job2", "server", "srv_alt"), L_("job2", "server", "srv"), L_("job2", "server", "srv_alt")])),
                 ("script", dict(skeleton="T9", script=[L_("job", "server", "srv_alt"), L_("job2", "server", "srv_alt")])),
                 ("script", dict(skeleton="T9", script=[L_("job2", "server", "srv_alt"), L_("job", "server", "srv_alt"), L_("job2", "server", "srv")])),
                 ("script", dict(skeleton="T9", script=[L_("up2", "network", "net"), L_("up2", "network", "net2"), L_("up2", "network", "net")])),
                 ("script", dict(skeleton="T9", script=[L_("up", "country", "my"), L_("up2", "country", "fr"), L_("up", "country", "fr")])),
                 ("script", dict(skeleton="T9", script=[dict(k="list_op", obj="step", attr="jobs", op="append", args=["job_alt"]),
                                                        dict(k="list_op", obj="step", attr="jobs", op="remove", args=["job_alt"]),
                                                        dict(k="list_op", obj="step", attr="jobs", op="append", args=["job_alt"])]))]
    # link edit followed by a numeric edit on a touched object
    follow = [("script", dict(skeleton="T8", script=[dict(k="link", obj="job", attr="server", target="srv_alt"), num("srv_alt", "ram")])),
              ("script", dict(skeleton="T8", script=[dict(k="link", obj="up", attr="network", target="net_alt"), num("net_alt", "bandwidth_energy_intensity")])),
              ("script", dict(skeleton="T8", script=[dict(k="link", obj="up", attr="country", target="de"), num("de", "average_carbon_intensity")])),
              ("script", dict(skeleton="T8", script=[dict(k="list_op", obj="step", attr="jobs", op="append", args=["job_alt"]), num("job_alt", "data_transferred")])),
              ("script", dict(skeleton="T8", script=[dict(k="link", obj="srv", attr="storage", target="st_free"), num("st_free", "storage_capacity")])),
              ("script", dict(skeleton="T8", script=[dict(k="list_op", obj="up", attr="devices", op="append", args=["dev_alt"]), num("dev_alt", "power")])),
              ("script", dict(skeleton="T8", script=[dict(k="link", obj="up", attr="usage_journey", target="uj_alt"), num("step_alt", "user_time_spent")]))]
    groups = [("script", dict(skeleton="T1", script=[dict(k="group", edits=[num("job", "data_transferred"), num("srv", "ram")])])),
              ("script", dict(skeleton="T8", script=[dict(k="group", edits=[num("job", "data_transferred"), dict(k="link", obj="job", attr="server", target="srv_alt")])])),
              ("script", dict(skeleton="T8", script=[dict(k="group", edits=[dict(k="link", obj="up", attr="network", target="net_alt"), dict(k="link", obj="up", attr="country", target="de")]),
                                                     dict(k="group", edits=[dict(k="link", obj="up", attr="network", target="net"), dict(k="link", obj="up", attr="country", target="fr")])])),
              ("script", dict(skeleton="T3", script=[dict(k="group", edits=[num("job", "request_duration"), num("step", "user_time_spent")])])),
              ("script", dict(skeleton="T1", script=[num("job", "data_transferred", may_equal=True)]))]
    fixed = [("script", dict(skeleton="T5", script=[dict(k="fixed", obj="srv", val="sym"), dict(k="fixed", obj="srv", val=None)])),
             ("script", dict(skeleton="T5", args={"type1": "on-premise", "type2": "serverless", "fixed1": 40}, script=[dict(k="fixed", obj="srv", val="sym"), dict(k="fixed", obj="srv", val="sym")])),
             ("script", dict(skeleton="T1", args={"fixed": None}, script=[dict(k="fixed", obj="st", val="sym"), dict(k="fixed", obj="st", val="sym")])),
             ("script", dict(skeleton="T1", script=[dict(k="fixed", obj="st", val="sym"), dict(k="fixed", obj="st", val=None)]))]
    # the "everything at once" system: numeric edits on objects of each kind, a link edit and a list edit
    tx = [("script", dict(skeleton="TX", script=[e])) for e in (
        num("job3", "data_stored"), num("step1", "user_time_spent"), num("dev2", "power"), num("de", "average_carbon_intensity"),
        num("st", "data_storage_duration"), num("net2", "bandwidth_energy_intensity"), num("srv2", "power_usage_effectiveness"),
        num("job", "request_duration"), num("st", "base_storage_need"))]
    tx += [("script", dict(skeleton="TX", script=[L_("up2", "network", "net2"), num("net2", "bandwidth_energy_intensity")])),
           ("script", dict(skeleton="TX", script=[L_("up3", "country", "fr"), L_("up3", "country", "my")])),
           ("script", dict(skeleton="TX", script=[dict(k="list_assign", obj="up", attr="devices", names=["dev2"]), num("dev2", "lifespan")])),
           ("script", dict(skeleton="TX", script=[L_("job3", "server", "srv2"), num("job3", "ram_needed")]))]
    # lists re-assigned with the same members in another order or multiplicity (T4: a job twice in a step, three steps)
    LA_ = lambda o, a, names: dict(k="list_assign", obj=o, attr=a, names=names)  # noqa
    reorder = [("script", dict(skeleton="T4", script=[LA_("uj", "uj_steps", ["step2", "step1", "step3"])], extra_sym=["step1.user_time_spent", "step2.user_time_spent"])),
               ("script", dict(skeleton="T4", script=[LA_("step1", "jobs", ["jobA"]), LA_("step1", "jobs", ["jobA", "jobA"])])),
               ("script", dict(skeleton="T4", script=[LA_("uj", "uj_steps", ["step1", "step2", "step3", "step1"]), LA_("uj", "uj_steps", ["step1", "step2", "step3"])])),
               ("script", dict(skeleton="T1", script=[LA_("up", "devices", ["dev", "dev"]), LA_("up", "devices", ["dev"])])),
               # lists emptied or reduced, then restored
               ("script", dict(skeleton="T1", script=[LA_("up", "devices", []), LA_("up", "devices", ["dev"])])),
               ("script", dict(skeleton="T4", script=[LA_("uj", "uj_steps", ["step2"]), LA_("uj", "uj_steps", ["step1", "step2", "step3"])]))]
    # mixed histories on T9: accepted edits interleaved with simulations (set/reset) and failing edits
    SIM = lambda *sc, **kw: dict(k="sim", script=list(sc), **kw)  # noqa
    FAIL = lambda o, q, v: dict(k="fail", obj=o, param=q, value=v)  # noqa
    mixed = [[SIM(num("job", "data_transferred")), num("job", "data_transferred"), num("srv", "ram")],
             [FAIL("srv", "base_ram_consumption", 10 ** 6), num("job", "ram_needed"), num("srv", "server_utilization_rate")],
             [SIM(L_("job", "server", "srv_alt")), num("srv", "ram"), L_("job", "server", "srv_alt")],
             [L_("up", "network", "net_alt"), SIM(L_("up", "network", "net")), num("net_alt", "bandwidth_energy_intensity")],
             [FAIL("job", "request_duration", 0), num("job", "request_duration"), num("job", "data_stored")],
             [num("job2", "ram_needed"), FAIL("srv", "base_compute_consumption", 10 ** 6), FAIL("srv", "base_ram_consumption", 10 ** 6), num("job2", "compute_needed")],
             [SIM(dict(k="list_assign", obj="step", attr="jobs", names=["job", "job_alt"]), hour=0), dict(k="list_op", obj="step", attr="jobs", op="append", args=["job_alt"]), num("job_alt", "data_transferred")],
             [SIM(num("dev", "power"), toggles=["set", "reset", "set", "reset"]), FAIL("st", "storage_capacity", 10 ** -12) if False else num("dev", "power"), num("fr", "average_carbon_intensity")],
             [FAIL("srv", "base_ram_consumption", 10 ** 6), SIM(num("srv", "ram")), num("srv", "base_ram_consumption")]]
    mixed = [("script", dict(skeleton="T9", script=h_)) for h_ in mixed]
    if tier == "quick":
        rnd.shuffle(shared)
        p += tx + reorder + mixed
        p += shared[:14] + links9 + follow9 + histories + links[:8] + follow[:3] + groups + fixed
    else:
        p += tx + reorder + mixed + shared + links9 + follow9 + histories + links + follow + groups + fixed
        # all ordered pairs of single numeric edits on T1 touching different objects: seeded sample of 60
        singles = [e for e, inv in single_edits("T1") if e["k"] == "num"]
        pairs = [(a, b) for a in singles for b in singles if a["obj"] != b["obj"]]
        rnd.shuffle(pairs)
        p += [("script", dict(skeleton="T1", script=[a, b])) for a, b in pairs[:60]]
        # (a replacement series of another length is refused by the model: the starts edits are written for n=2)
        p += [("script", dict(skeleton="T3", n=3, script=[e] + ([inv] if inv else []))) for e, inv in single_edits("T3") if e["k"] != "starts"]
    # inductive invariant (same dependency graph as the fresh system) wherever no job is shared between usage patterns
    for item in p:
        if item[1]["skeleton"] in ("T1", "T4", "T5", "T7", "T9"):
            item[1]["graph"] = True
    return p
