"""C02 — System footprint accounts for every component exactly once."""
import math

from harness import model as M, values as V
from harness.common import traffic_syms, gt_sets, sym_slots, check_finite
from sx.core import Sym

PROPERTY = "C02"
LEVEL = "model_checking"
BOUNDS = {"hours_per_series": "N<=3", "usage_patterns": "<=2", "servers": "<=2", "skeletons": "T1,T2,T2c (two countries on one network),T3,T4,T5,T7",
          "symbolic": "traffic of every pattern + cost drivers (intensities, PUE, powers, per-request amounts)"}
ASSUMPTIONS = [
    "inputs non-negative where the class requires it; lifespans and fractions of usage time at their (positive) "
    "defaults; server utilisation rate in (0,1]",
    "rounding of total_footprint: |total_footprint - sum| <= 0.5e-4 kg and 10^4*total_footprint integral "
    "(tie direction not checked)",
]

DRIVERS = {
    "intens": lambda spec: sym_slots(spec, [("countries", "average_carbon_intensity", 1, 1000, (20, 600)),
                                            ("servers", "average_carbon_intensity", 1, 1000, (20, 600))]),
    "power": lambda spec: sym_slots(spec, [("servers", "power_usage_effectiveness", 1, 3, (1, 2)),
                                           ("devices", "power", 0, 1000, (1, 100)),
                                           ("networks", "bandwidth_energy_intensity", 0, 10, (0.01, 1))]),
    "job": lambda spec: sym_slots(spec, [("jobs", "data_transferred", 0, 10 ** 7, (1, 5000)),
                                         ("jobs", "ram_needed", 0, 10 ** 5, (1, 5000))]),
    "capacity": lambda spec: sym_slots(spec, [("servers", "ram", 1, 10 ** 4, (16, 512)),
                                              ("servers", "base_ram_consumption", 0, 10 ** 4, (0, 8)),
                                              ("servers", "server_utilization_rate", 0, 1, (0.5, 1))],
                                       strict_lo={"server_utilization_rate"}),
}


def _sum_cells(list_of_cells):
    out = {}
    for cells in list_of_cells:
        for k, v in cells.items():
            out[k] = out.get(k, 0) + v
    return out


def h_totals(ctx, skeleton, n, drivers, args=None, same_names=False, values=None):
    """values: concrete overrides (boundary cases: a server whose jobs all store exactly nothing while its storage holds an
    initial volume, a job that transfers nothing, ...)"""
    spec = M.SKELETONS[skeleton](n, **(args or {}))
    if same_names:
        # distinct objects that share a display name (archetypes all called "Default SSD storage" etc.)
        for coll in ("storages", "servers", "networks", "devices", "countries", "jobs", "steps", "journeys", "patterns"):
            for k, o in spec.get(coll, {}).items():
                o["name"] = f"same {coll}"
    sym = traffic_syms(spec)
    for d in drivers:
        sym.update(DRIVERS[d](spec))
    env = M.Env(ctx, symbolic={k: v for k, v in sym.items() if k not in (values or {})}, values=dict(values or {}))
    if ctx.symbolic:
        ctx.assume_nonzero_divisors = False   # here the divisors are proved non-zero (obligation 5) instead of assumed
    objs = M.build(spec, env)
    s = objs["system"]
    V.observe_system(ctx, objs)
    gt = gt_sets(spec)

    # (1) hourly total = sum over ground-truth components, each once
    comp = []
    for name in gt["servers"] + gt["storages"] + gt["patterns"]:
        o = objs[name]
        comp.append(V.phys(o.energy_footprint)[1])
        comp.append(V.phys(o.instances_fabrication_footprint)[1])
    for name in gt["networks"]:
        comp.append(V.phys(objs[name].energy_footprint)[1])
    S = _sum_cells(comp)
    dim, tot = V.phys(s.total_footprint)
    ctx.require(dim in (None, "kilogram"), "total_footprint dimension", str(dim))
    ctx.require(set(tot) == set(S), "total_footprint index = union of component indexes",
                f"{sorted(map(str, set(tot) ^ set(S)))[:4]}")
    half = 0.5e-4
    for k in sorted(S):
        t = tot.get(k, 0)
        lab = f"total_footprint[{V._kstr(k)}]"
        if ctx.symbolic:
            ctx.holds((t - S[k] <= half) & (S[k] - t <= half), f"{lab} = rounded sum of components")
        else:
            ctx.require(abs(t - S[k]) <= half * (1 + 1e-6) + 1e-9 * abs(S[k]), f"{lab} = rounded sum of components",
                        f"{t} vs {S[k]}")

    # (2) views
    fab, en = s.fabrication_footprints, s.energy_footprints
    tfab, ten = s.total_fabrication_footprints, s.total_energy_footprints
    fsum, esum = s.fabrication_footprint_sum_over_period, s.energy_footprint_sum_over_period
    tfsum, tesum = s.total_fabrication_footprint_sum_over_period, s.total_energy_footprint_sum_over_period
    expected_keys = {"Servers": {objs[x].id for x in gt["servers"]}, "Storage": {objs[x].id for x in gt["storages"]},
                     "Devices": {objs[x].id for x in gt["patterns"]}}
    for cat in ("Servers", "Storage", "Devices"):
        ctx.require(set(en[cat].keys()) == expected_keys[cat], f"energy_footprints[{cat}] lists each object once")
        ctx.require(set(fab[cat].keys()) == expected_keys[cat], f"fabrication_footprints[{cat}] lists each object once")
    ctx.require(set(en["Network"].keys()) == {objs[x].id for x in gt["networks"]},
                "energy_footprints[Network] lists each network once")
    grand = 0
    for views, tviews, sums, tsums, kind in ((fab, tfab, fsum, tfsum, "fabrication"), (en, ten, esum, tesum, "energy")):
        for cat in views:
            per_obj = [V.phys(v)[1] for v in views[cat].values()]
            V.compare_phys(ctx, (None, _sum_cells(per_obj)), V.phys(tviews[cat]), f"total_{kind}_footprints[{cat}]")
            cat_total = 0
            for key, v in views[cat].items():
                cells = V.phys(v)[1]
                sm = sum(cells.values()) if cells else 0
                cat_total = cat_total + sm
                ctx.eq(V.phys(sums[cat][key])[1].get(None, 0), sm, f"{kind}_footprint_sum_over_period[{cat}][obj]")
            ctx.eq(V.phys(tsums[cat])[1].get(None, 0), cat_total, f"total_{kind}_footprint_sum_over_period[{cat}]")
            grand = grand + cat_total
    ctx.eq(grand, sum(S.values()) if S else 0, "sum of all period sums = sum over hours of component sum")

    # (3) energy footprint = energy x applicable intensity
    def ci(o):
        return V.quantity_base(o.average_carbon_intensity.value)[1]
    for name in gt["servers"]:
        o = objs[name]
        e = V.phys(o.instances_energy)[1]
        V.compare_phys(ctx, o.energy_footprint, ("kilogram", {k: v * ci(o) for k, v in e.items()}),
                       f"{name}.energy_footprint = energy x own intensity")
    for name in gt["storages"]:
        o = objs[name]
        srv = [objs[x] for x, so in spec["servers"].items() if so["storage"] == name][0]
        e = V.phys(o.instances_energy)[1]
        V.compare_phys(ctx, o.energy_footprint, ("kilogram", {k: v * ci(srv) for k, v in e.items()}),
                       f"{name}.energy_footprint = energy x its server's intensity")
    for name in gt["patterns"]:
        o = objs[name]
        c = objs[spec["patterns"][name]["country"]]
        e = V.phys(o.devices_energy)[1]
        V.compare_phys(ctx, o.energy_footprint, ("kilogram", {k: v * ci(c) for k, v in e.items()}),
                       f"{name}.energy_footprint = devices energy x country intensity")
    for name in gt["networks"]:
        net = objs[name]
        bw = V.quantity_base(net.bandwidth_energy_intensity.value)[1]
        exp = []
        for pname in gt["patterns"]:
            if spec["patterns"][pname]["network"] != name:
                continue
            up = objs[pname]
            c = objs[spec["patterns"][pname]["country"]]
            for jname in gt["jobs_of_pattern"][pname]:
                d = objs[jname].hourly_data_transferred_per_usage_pattern
                val = [v for key, v in d.items() if key.id == up.id]
                ctx.require(len(val) == 1, f"{jname}.hourly_data_transferred_per_usage_pattern has {pname}")
                if val:
                    exp.append({k: v * bw * ci(c) for k, v in V.phys(val[0])[1].items()})
        V.compare_phys(ctx, net.energy_footprint, ("kilogram", _sum_cells(exp)),
                       f"{name}.energy_footprint = sum_up bandwidth x data_up x intensity(country_up)")

    # (4) sign, (5) finiteness
    for name in gt["servers"] + gt["storages"] + gt["patterns"] + gt["networks"]:
        o = objs[name]
        for attr in ("energy_footprint", "instances_fabrication_footprint"):
            v = getattr(o, attr, None)
            if v is None:
                continue
            for k, c in V.phys(v)[1].items():
                if ctx.symbolic:
                    if isinstance(c, Sym) and ctx.divisors:
                        # sign is claimed where the value is defined (the zero-divisor case is obligation 5's subject)
                        import z3
                        ctx.holds(z3.Or(c.e >= 0, *[dz == 0 for dz in ctx.divisors]), f"{name}.{attr} >= 0")
                    else:
                        ctx.holds(c >= 0, f"{name}.{attr} >= 0")
                else:
                    ctx.require(c >= -1e-12, f"{name}.{attr} >= 0", str(c))
    check_finite(ctx, objs, gt)


HARNESSES = {"totals": h_totals}


def plan(tier, seed):
    p = []
    for sk, n in (("T1", 2), ("T2", 2), ("T3", 2), ("T4", 2), ("T5", 2), ("T7", 3)):
        p.append(("totals", dict(skeleton=sk, n=n, drivers=["intens"])))
    p.append(("totals", dict(skeleton="T3", n=2, drivers=["power", "job"])))
    p.append(("totals", dict(skeleton="T2c", n=2, drivers=["intens"])))
    p.append(("totals", dict(skeleton="TX", n=2, drivers=["intens"])))
    # series with the same first hour and length but different hours (a time change in one of two zones)
    p.append(("totals", dict(skeleton="TH", n=5, drivers=["intens"])))
    # two distinct countries with the same name and short name on one network
    p.append(("totals", dict(skeleton="T2c", n=2, drivers=["intens"], args={"same_names": True})))
    p.append(("totals", dict(skeleton="TX", n=2, drivers=["intens"], args={"same_names": True})))
    # a journey that visits the same step object twice
    p.append(("totals", dict(skeleton="T4", n=2, drivers=["job"], args={"repeat": True})))
    p.append(("totals", dict(skeleton="TH", n=5, drivers=["job"], args={"shared_journey": False})))
    # boundary values: jobs that store / transfer / need exactly nothing, storages with an initial volume and idle power
    zero = {"job2.data_stored": 0, "st2.base_storage_need": 2, "st2.idle_power": 5, "st.base_storage_need": 1, "job.data_transferred": 0}
    p.append(("totals", dict(skeleton="T5", n=2, drivers=["intens"], values=zero, args={"type1": "autoscaling", "type2": "serverless"})))
    p.append(("totals", dict(skeleton="TX", n=2, drivers=["capacity"], values={"job2.data_stored": 0, "st2.base_storage_need": 3, "job3.ram_needed": 0})))
    p.append(("totals", dict(skeleton="TX", n=2, drivers=["job"], args={"shared": True})))      # two countries on one network
    p.append(("totals", dict(skeleton="T1", n=2, drivers=["capacity"])))
    p.append(("totals", dict(skeleton="T5", n=2, drivers=["intens"], same_names=True)))
    p.append(("totals", dict(skeleton="T3", n=2, drivers=["power"], same_names=True)))
    if tier == "thorough":
        for sk in ("T1", "T2", "T3", "T4", "T5", "T7"):
            for d in (["power"], ["job"], ["capacity"], ["intens", "power"]):
                p.append(("totals", dict(skeleton=sk, n=3, drivers=d)))
        p.append(("totals", dict(skeleton="T5", n=2, drivers=["capacity"], args={"type1": "autoscaling", "type2": "on-premise"})))
    return p
