"""C03 — Usage volumes are conserved from journey starts down to job load."""
from datetime import timedelta

from harness import model as M, values as V
from harness.common import traffic_syms, gt_sets, multiplicity
from sx.core import ite, floor_, ceil_, sym_eq

PROPERTY = "C03"
LEVEL = "model_checking"
BOUNDS = {"hours_per_series": "N<=3 (thorough 4)", "step_durations": "[0, 2h) each (thorough [0,3h))",
          "request_duration": "(0, 3h]", "multiplicity": "<=3 appearances of a job in a journey",
          "skeletons": "T1, T4, T3, T2"}
ASSUMPTIONS = ["request_duration > 0 (data spreading divides by ceil(duration))",
               "'whole hours of the preceding steps' = floor(cumulated time of the preceding steps) (anchor: shift by "
               "cumulated step time)", "time zone of the patterns concrete; the oracle starts from "
               "utc_hourly_usage_journey_starts (C11 covers the conversion)"]
HOUR = timedelta(hours=1)


def _cells(ev):
    return V.phys(ev)[1]


def _sum(cells):
    return sum(cells.values()) if cells else 0


def _shifted_sum(src, shifts_and_weights, keys=None):
    """oracle: out[t] = sum_(F,w) w * src[t - F h] with F possibly symbolic (integer proxy) in 0..MAXF"""
    MAXF = 8
    ts = sorted(src)
    out = {}
    if not ts:
        return out
    span = [ts[0] + i * HOUR for i in range(len(ts) + MAXF + 1)]
    for t in span:
        acc = 0
        for (F, w) in shifts_and_weights:
            for t0 in ts:
                delta = int((t - t0) / HOUR)
                if delta < 0 or delta > MAXF:
                    continue
                if isinstance(F, int):
                    if F == delta:
                        acc = acc + src[t0] * w
                else:
                    acc = acc + ite(sym_eq(F, delta), src[t0] * w, 0)
        out[t] = acc
    return out


def h_conservation(ctx, skeleton, n, sym_durations, dmax_h=2, rmax_h=3, args=None, placement=True, negative=(), units=None, values=None):
    """negative: jobs whose data_stored is negative (they delete data): the totals are conserved with their sign"""
    spec = M.SKELETONS[skeleton](n, **(args or {}))
    gt = gt_sets(spec)
    sym = traffic_syms(spec)
    for st in gt["steps"]:
        if "steps" in sym_durations:
            sym[f"{st}.user_time_spent"] = dict(lo=0, hi=60 * dmax_h, hi_strict=True, nice=(1, 60 * dmax_h - 1))
    for j in gt["jobs"]:
        if "request" in sym_durations:
            sym[f"{j}.request_duration"] = dict(lo=0, lo_strict=True, hi=3600 * rmax_h, nice=(1, 3600 * rmax_h))
        sym[f"{j}.data_transferred"] = dict(lo=0, hi=10 ** 6, nice=(1, 900))
        sym[f"{j}.data_stored"] = dict(lo=0, hi=10 ** 6, nice=(1, 900)) if j not in negative else \
            dict(lo=-10 ** 6, hi=0, hi_strict=True, nice=(-900, -1))
        sym[f"{j}.ram_needed"] = dict(lo=0, hi=10 ** 5, nice=(1, 900))
    for d in gt["devices"]:
        sym[f"{d}.power"] = dict(lo=0, hi=1000, nice=(1, 100))
    # units / values: some inputs written in another unit, concrete overrides (jobs of one server whose needs are written
    # in different units and whose series cover different hours)
    env = M.Env(ctx, symbolic={k: v for k, v in sym.items() if k not in (values or {})}, values=dict(values or {}), units=dict(units or {}))
    objs = M.build(spec, env)
    V.observe_system(ctx, objs)

    def q(name, param):  # base-unit magnitude of an input
        return V.quantity_base(getattr(objs[name], param).value)[1]

    per_job_avg = {j: {} for j in gt["jobs"]}
    for p in gt["patterns"]:
        up = objs[p]
        starts = _cells(up.utc_hourly_usage_journey_starts)
        X = _sum(starts)
        steps = spec["journeys"][spec["patterns"][p]["journey"]]["steps"]
        d_s = [q(st, "user_time_spent") for st in steps]              # seconds (base unit)
        cum = [0]
        for d in d_s:
            cum.append(cum[-1] + d)
        dur_h = cum[-1] / 3600
        # journeys in parallel and device energy
        par = _cells(up.nb_usage_journeys_in_parallel)
        ctx.eq(_sum(par), X * dur_h, f"{p}: sum nb_usage_journeys_in_parallel = starts x duration")
        pw = sum(q(d, "power") for d in spec["patterns"][p]["devices"])
        ctx.eq(_sum(_cells(up.devices_energy)), X * cum[-1] * pw, f"{p}: sum devices_energy = starts x duration x power")
        for j in gt["jobs_of_pattern"][p]:
            job = objs[j]
            apps = multiplicity(spec, p, j)
            mult = sum(c for _, c in apps)

            def entry(attr):
                d = getattr(job, attr)
                vals = [v for k, v in d.items() if k.id == up.id]      # by identity: display names are not identifiers
                ctx.require(len(vals) == 1, f"{j}.{attr} has exactly one entry for {p}")
                return _cells(vals[0]) if vals else {}
            occ = entry("hourly_occurrences_per_usage_pattern")
            # placement of occurrences
            shifts = [(floor_(cum[i] / 3600), c) for i, c in apps]
            if placement:
                exp = _shifted_sum(starts, shifts)
                for t in sorted(set(exp) | set(occ)):
                    ctx.eq(occ.get(t, 0), exp.get(t, 0), f"{j}@{p}: occurrence placement")
            ctx.eq(_sum(occ), mult * X, f"{j}@{p}: total occurrences = multiplicity x starts")
            r_s = q(j, "request_duration")
            r_h = r_s / 3600
            avg = entry("hourly_avg_occurrences_per_usage_pattern")
            ctx.eq(_sum(avg), _sum(occ) * r_h, f"{j}@{p}: occurrence-hours = occurrences x request duration")
            F, D = floor_(r_h), ceil_(r_h)
            if placement:
                # full hours: shifts 0..F-1 with weight 1; partial hour at shift F with weight r_h - F
                sw = []
                for s in range(0, 4):
                    sw.append((s, ite(F > s, 1, 0)))
                expa = _shifted_sum(occ, sw)
                rest = _shifted_sum(occ, [(F, r_h - F)])
                for t in sorted(set(expa) | set(avg) | set(rest)):
                    ctx.eq(avg.get(t, 0), expa.get(t, 0) + rest.get(t, 0), f"{j}@{p}: average occurrences placement")
            for kind in ("data_transferred", "data_stored"):
                cells = entry(f"hourly_{kind}_per_usage_pattern")
                ctx.eq(_sum(cells), _sum(occ) * q(j, kind), f"{j}@{p}: total {kind} = occurrences x per-request amount")
                if placement:
                    sw = [(s, ite(D > s, q(j, kind) / D, 0)) for s in range(0, 4)]
                    expd = _shifted_sum(occ, sw)
                    for t in sorted(set(expd) | set(cells)):
                        ctx.eq(cells.get(t, 0), expd.get(t, 0), f"{j}@{p}: {kind} spread over ceil(duration) hours")
            for t, v in avg.items():
                per_job_avg[j][t] = per_job_avg[j].get(t, 0) + v
    # across patterns
    for j in gt["jobs"]:
        job = objs[j]
        for a in ("occurrences", "avg_occurrences", "data_transferred", "data_stored"):
            d = getattr(job, f"hourly_{a}_per_usage_pattern")
            tot = {}
            for k, v in d.items():
                for t, c in _cells(v).items():
                    tot[t] = tot.get(t, 0) + c
            ctx.require(sorted(k.id for k in d.keys()) == sorted(objs[p].id for p in gt["patterns"] if j in gt["jobs_of_pattern"][p]),
                        f"{j}.hourly_{a}_per_usage_pattern keys = patterns using the job")
            V.compare_phys(ctx, getattr(job, f"hourly_{a}_across_usage_patterns"), (None, tot),
                           f"{j}: {a} across patterns = sum over patterns")
    # server load
    for s in gt["servers"]:
        srv = objs[s]
        need = {}
        for j in gt["jobs"]:
            if spec["jobs"][j]["server"] != s:
                continue
            rn = q(j, "ram_needed")
            for t, c in per_job_avg[j].items():
                need[t] = need.get(t, 0) + c * rn
        V.compare_phys(ctx, srv.hour_by_hour_ram_need, (None, need), f"{s}: hour_by_hour_ram_need = sum avg occ x ram")


HARNESSES = {"conservation": h_conservation}


def plan(tier, seed):
    p = [("conservation", dict(skeleton="T1", n=3, sym_durations=["steps", "request"], dmax_h=2, rmax_h=3)),
         ("conservation", dict(skeleton="T4", n=2, sym_durations=["steps"], dmax_h=2)),
         # a journey that visits the same step object twice (placement of the second visit: delay of *its* position)
         ("conservation", dict(skeleton="T4", n=2, sym_durations=["steps"], dmax_h=2, args={"repeat": True})),
         ("conservation", dict(skeleton="T4", n=2, sym_durations=[], args={"repeat": True}, values={"step1.user_time_spent": 50, "step2.user_time_spent": 45})),
         ("conservation", dict(skeleton="T3", n=2, sym_durations=["request"], rmax_h=2)),
         ("conservation", dict(skeleton="T2", n=2, sym_durations=["steps"], dmax_h=3)),
         ("conservation", dict(skeleton="T4", n=2, sym_durations=[], units={"jobB.ram_needed": "GB", "jobB.data_transferred": "GB"},
                               values={"step1.user_time_spent": 70, "jobB.request_duration": 4000})),
         ("conservation", dict(skeleton="T7", n=2, sym_durations=[], negative=["jobdel"])),
         ("conservation", dict(skeleton="T4", n=2, sym_durations=[], negative=["jobB"])),
         ("conservation", dict(skeleton="TX", n=2, sym_durations=[], dmax_h=2)),
         # two zones, one with a time change inside the period: per-pattern series with the same first hour and length, other hours
         ("conservation", dict(skeleton="TH", n=5, sym_durations=[], dmax_h=2)),
         ("conservation", dict(skeleton="TH", n=5, sym_durations=["request"], rmax_h=2, args={"shared_journey": False})),
         ("conservation", dict(skeleton="TX", n=2, sym_durations=[], dmax_h=2, args={"shared": True})),
         ("conservation", dict(skeleton="TX", n=2, sym_durations=[], dmax_h=2, args={"same_names": True}))]
    if tier == "thorough":
        p += [("conservation", dict(skeleton="TX", n=2, sym_durations=["request"], rmax_h=2, args={"shared": True})),
              ("conservation", dict(skeleton="T1", n=4, sym_durations=["steps", "request"], dmax_h=3, rmax_h=3)),
              ("conservation", dict(skeleton="T4", n=3, sym_durations=["steps", "request"], dmax_h=2, rmax_h=2), dict(max_paths=6000, max_seconds=3000)),
              ("conservation", dict(skeleton="T3", n=3, sym_durations=["steps", "request"], dmax_h=2, rmax_h=2), dict(max_paths=6000, max_seconds=3000)),
              ("conservation", dict(skeleton="T7", n=3, sym_durations=["request"], rmax_h=3)),
              ("conservation", dict(skeleton="T5", n=2, sym_durations=["steps", "request"], dmax_h=2, rmax_h=2), dict(max_paths=6000, max_seconds=3000))]
    return p
