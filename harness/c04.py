"""C04 — Infrastructure is always sized to cover the computed need."""
from datetime import timedelta

from harness import model as M, values as V
from harness.common import traffic_syms, gt_sets
from sx.core import ite, floor_, ceil_, sym_eq, where, and_, or_

PROPERTY = "C04"
LEVEL = "model_checking"
BOUNDS = {"hours_per_series": "N<=3", "storage_duration": "ceil in 1..N+1 hours", "skeletons": "T5 (server types), "
          "T1/T7 (storage, equal/overlapping/disjoint windows)", "float clause": "Float64 query on the cumulative-sum "
          "kernel: N=3, inputs in {0} U [1,8], see h_fp"}
ASSUMPTIONS = ["server utilisation rate in (0,1]; capacities > 0; loads >= 0", "job load series (hourly occurrences, "
               "stored volumes) are taken from the model as computed (C03 checks them)",
               "division by a zero available capacity is excluded here (reported by C02)"]
HOUR = timedelta(hours=1)


def _cells(ev):
    return V.phys(ev)[1]


def _max(vals):
    m = None
    for v in vals:
        m = v if m is None else ite(v >= m, v, m)
    return m


def _min(vals):
    m = None
    for v in vals:
        m = v if m is None else ite(v <= m, v, m)
    return m


def _abs(v):
    return ite(v >= 0, v, -v)


def h_servers(ctx, n, type1, type2, fixed1=None, sym_fixed=False):
    spec = M.T5(n, type1=type1, type2=type2, fixed1=fixed1)
    gt = gt_sets(spec)
    sym = traffic_syms(spec, nice=(1, 200))
    for j in gt["jobs"]:
        sym[f"{j}.ram_needed"] = dict(lo=0, hi=10 ** 6, nice=(100, 5000))
        sym[f"{j}.compute_needed"] = dict(lo=0, hi=10 ** 3, nice=(0.1, 5))
    for s in gt["servers"]:
        sym[f"{s}.ram"] = dict(lo=0, lo_strict=True, hi=10 ** 4, nice=(8, 256))
        sym[f"{s}.compute"] = dict(lo=0, lo_strict=True, hi=10 ** 4, nice=(2, 64))
        sym[f"{s}.server_utilization_rate"] = dict(lo=0, lo_strict=True, hi=1, nice=(0.5, 1))
        sym[f"{s}.base_ram_consumption"] = dict(lo=0, hi=10 ** 4, nice=(0, 4))
        sym[f"{s}.base_compute_consumption"] = dict(lo=0, hi=10 ** 4, nice=(0, 1))
    if fixed1 is not None and sym_fixed:
        sym["srv.fixed_nb_of_instances"] = dict(lo=0, hi=10 ** 6, nice=(1, 50))
    env = M.Env(ctx, symbolic=sym)
    err = None
    try:
        objs = M.build(spec, env)
    except ValueError as e:
        err = e
    get = lambda slot, d: env.get(slot, d)  # noqa
    if err is not None:
        site = where(err)
        ok_sites = ("server_base.py:update_available_ram_per_instance",
                    "server_base.py:update_available_compute_per_instance",
                    "server_base.py:on_premise_update_nb_of_instances")
        ctx.require(site in ok_sites, "model rejected only by a documented sizing check", f"{site}: {err}")
        # rejecting paths of the capacity checks must be exactly base consumption > capacity
        conds = []
        for s in gt["servers"]:
            u_ = get(f"{s}.server_utilization_rate", 0.875)
            conds.append(get(f"{s}.base_ram_consumption", 2) > get(f"{s}.ram", 128) * u_)
            conds.append(get(f"{s}.base_compute_consumption", 1) > get(f"{s}.compute", 24) * u_)
        if site.endswith("_per_instance"):
            ctx.holds(or_(*conds), "capacity rejection implies base consumption exceeds available capacity")
        raise err
    V.observe_system(ctx, objs)
    for s in gt["servers"]:
        srv = objs[s]
        stype = spec["servers"][s]["server_type"]
        u_ = get(f"{s}.server_utilization_rate", 0.875)
        ram_gb = get(f"{s}.ram", 128)
        avail_ram = ram_gb * u_ - get(f"{s}.base_ram_consumption", 2)          # GB
        avail_cpu = get(f"{s}.compute", 24) * u_ - get(f"{s}.base_compute_consumption", 1)
        ctx.holds(avail_ram >= 0, f"{s}: accepted => base RAM within capacity")
        ctx.holds(avail_cpu >= 0, f"{s}: accepted => base compute within capacity")
        ramn, cpun = _cells(srv.hour_by_hour_ram_need), _cells(srv.hour_by_hour_compute_need)
        raw, nb = _cells(srv.raw_nb_of_instances), _cells(srv.nb_of_instances)
        ctx.require(set(raw) == set(ramn) | set(cpun), f"{s}: raw instances index = need index")
        ctx.require(set(nb) == set(raw), f"{s}: instances index = raw index")
        GB = 8 * 10 ** 9
        oracle_raw = {}
        for t in sorted(raw):
            a = ramn.get(t, 0) / (avail_ram * GB)
            b = cpun.get(t, 0) / avail_cpu
            oracle_raw[t] = ite(a >= b, a, b)
            ctx.eq(raw[t], oracle_raw[t], f"{s}: raw instances = max(ram need/available, compute need/available)")
        peak = _max([oracle_raw[t] for t in sorted(oracle_raw)])
        for t in sorted(nb):
            ctx.le(raw[t], nb[t], f"{s}: instances >= raw need")
            if stype == "serverless":
                ctx.eq(nb[t], raw[t], f"{s}: serverless instances = raw need")
            elif stype == "autoscaling":
                ctx.eq_ceil(nb[t], oracle_raw[t], f"{s}: autoscaling instances = ceil(raw need)")
            else:
                fx = spec["servers"][s].get("fixed_nb_of_instances")
                if fx is None:
                    ctx.eq_ceil(nb[t], peak, f"{s}: on-premise instances = ceil(peak raw need), constant")
                else:
                    fxv = get(f"{s}.fixed_nb_of_instances", fx)
                    ctx.eq(nb[t], fxv, f"{s}: fixed instance count honoured exactly")
                    ctx.le(ceil_(peak), fxv, f"{s}: accepted => fixed count covers ceil(peak need)")


def _rejects(ctx, err, allowed):
    site = where(err)
    ctx.require(site in allowed, "model rejected only by a documented sizing check", f"{site}: {err}")
    return site


def h_storage(ctx, skeleton, n, args=None, deleting=(), sym_sign=(), fixed=None, dur_hours=None, base_zero=False):
    """Storage sizing.  `deleting`: jobs whose data_stored is negative; `sym_sign`: jobs whose sign is symbolic."""
    spec = M.SKELETONS[skeleton](n, **(args or {}))
    if fixed is not None:
        spec["storages"]["st"]["fixed_nb_of_instances"] = fixed
    gt = gt_sets(spec)
    sym = traffic_syms(spec, nice=(1, 50))
    N = n
    dmax = dur_hours or (N + 1)
    sym["st.data_storage_duration"] = dict(lo=0, lo_strict=True, hi=dmax / 8766, nice=(0.5 / 8766, dmax / 8766))
    sym["st.storage_capacity"] = dict(lo=0, lo_strict=True, hi=1000, nice=(0.001, 2))
    sym["st.data_replication_factor"] = dict(lo=0, hi=10, nice=(1, 3))
    if not base_zero:
        sym["st.base_storage_need"] = dict(lo=0, hi=1000, nice=(0, 1))
    values = {"st.base_storage_need": 0} if base_zero else {}
    for j in gt["jobs"]:
        if j in sym_sign:
            sym[f"{j}.data_stored"] = dict(lo=-10 ** 9, hi=10 ** 9, nice=(-10 ** 6, 10 ** 6))
        elif j in deleting:
            sym[f"{j}.data_stored"] = dict(lo=-10 ** 9, hi=0, hi_strict=True, nice=(-10 ** 6, -1))
        else:
            sym[f"{j}.data_stored"] = dict(lo=0, hi=10 ** 9, nice=(1, 10 ** 6))
    if fixed is not None:
        sym["st.fixed_nb_of_instances"] = dict(lo=0, hi=10 ** 6, nice=(1, 20))
    env = M.Env(ctx, symbolic=sym, values=values)
    err = None
    try:
        objs = M.build(spec, env)
    except ValueError as e:
        err = e
    kB = 8000
    ds = {j: env.get(f"{j}.data_stored", 100) for j in gt["jobs"]}
    if err is not None:
        site = _rejects(ctx, err, ("storage.py:update_full_cumulative_storage_need", "storage.py:update_nb_of_instances"))
        if site.endswith("update_full_cumulative_storage_need"):
            # a model in which no job deletes data is never rejected for negative storage
            ctx.unreachable(and_(*[ds[j] >= 0 for j in gt["jobs"]]),
                            "negative-storage rejection although no job deletes data")
        raise err
    V.observe_system(ctx, objs)
    st = objs["st"]
    TB = 8 * 10 ** 12
    repl = env.get("st.data_replication_factor", 3)
    cap = env.get("st.storage_capacity", 1) * TB
    base = env.get("st.base_storage_need", 0.25) * TB
    D = ceil_(env.get("st.data_storage_duration", 5) * 8766)
    stored = {j: _cells(objs[j].hourly_data_stored_across_usage_patterns) for j in gt["jobs"]}
    stamps = sorted(set(t for c in stored.values() for t in c))
    delta_code = _cells(st.storage_delta)
    cum_code = _cells(st.full_cumulative_storage_need)
    nb, active = _cells(st.nb_of_instances), _cells(st.nb_of_active_instances)
    # expiries can fall on hours of the period where no job stores anything (disjoint windows): the delta index holds
    # every stamp of the jobs and lies inside the modelled period; values are checked on every hour of the period
    full = [stamps[0] + i * HOUR for i in range(int((stamps[-1] - stamps[0]) / HOUR) + 1)] if stamps else []
    ctx.require(set(stamps) <= set(delta_code) <= set(full), "storage_delta index covers the jobs' stored-volume stamps, within the period (by time stamp)",
                f"{[str(t) for t in sorted(delta_code)]} vs {[str(t) for t in stamps]}")
    stamps = full
    need = {t: sum(ite(ds[j] >= 0, stored[j].get(t, 0), 0) for j in gt["jobs"]) * repl for t in stamps}
    freed = {t: sum(ite(ds[j] < 0, stored[j].get(t, 0), 0) for j in gt["jobs"]) * repl for t in stamps}
    last_need = max([t for j in gt["jobs"] for t in stored[j]] or stamps[:1])
    # stamps at which writing jobs have values define the dump window (<= last writing stamp)
    wstamps = [t for t in stamps]
    dumps = {}
    for t in stamps:
        acc = 0
        for k in range(1, dmax + 1):
            src = t - k * HOUR
            if src in need:
                acc = acc + ite(sym_eq(D, k), need[src], 0)
        dumps[t] = -acc
    running = base
    for t in stamps:
        d = need[t] + freed[t] + dumps[t]
        if t not in delta_code:
            ctx.eq(0, d, "storage_delta = replicated writes + deletions - expiries (per time stamp)")
            continue
        ctx.eq(delta_code.get(t, 0), d, "storage_delta = replicated writes + deletions - expiries (per time stamp)")
        # the cumulative sum, sizing and activity clauses are stated over the model's own delta, so that each clause
        # fails on its own
        running = running + delta_code.get(t, 0)
        ctx.eq(cum_code.get(t, 0), running, "cumulative need = initial need + running sum of deltas")
        ctx.le(0, cum_code.get(t, 0), "accepted => cumulative storage need never negative")
        ctx.le(cum_code.get(t, 0), nb.get(t, 0) * cap, "instances x capacity cover the cumulative need")
        ctx.le(active.get(t, 0), nb.get(t, 0), "active instances <= provisioned instances")
        ctx.le(0, active.get(t, 0), "active instances >= 0")
        if fixed is None:
            ctx.eq_ceil(nb.get(t, 0), running / cap, "instances = ceil(cumulative need / capacity)")
        else:
            ctx.eq(nb.get(t, 0), env.get("st.fixed_nb_of_instances", fixed), "fixed storage instance count honoured exactly")
        dump_t = delta_code.get(t, 0) - need[t] - freed[t]
        act = (ite(_abs(need[t]) >= _abs(freed[t]), _abs(need[t]), _abs(freed[t])) + _abs(dump_t)) / cap
        ctx.eq(active.get(t, 0), ite(act <= nb.get(t, 0), act, nb.get(t, 0)),
               "active instances = min((max(|written|,|freed|)+|expired|)/capacity, instances) per time stamp")


HARNESSES = {"servers": h_servers, "storage": h_storage}


def plan(tier, seed):
    p = [("servers", dict(n=2, type1="autoscaling", type2="serverless")),
         ("servers", dict(n=2, type1="on-premise", type2="autoscaling")),
         ("servers", dict(n=2, type1="on-premise", type2="serverless", fixed1=3, sym_fixed=True)),
         ("storage", dict(skeleton="T1", n=3)),
         ("storage", dict(skeleton="T1", n=2, fixed=2)),
         ("storage", dict(skeleton="T7", n=2, args={"offset_hours": 1}, deleting=["jobdel"])),
         ("storage", dict(skeleton="T1", n=2, sym_sign=["job"], base_zero=True)),
         # two writers whose windows are disjoint (a gap of hours in which nothing is stored): expiries by time stamp
         ("storage", dict(skeleton="T7", n=2, args={"offset_hours": 4}))]
    if tier == "thorough":
        p += [("servers", dict(n=3, type1=a, type2=b)) for a, b in (("autoscaling", "on-premise"), ("serverless", "on-premise"))]
        p += [("servers", dict(n=3, type1="on-premise", type2="autoscaling", fixed1=2, sym_fixed=True)),
              ("storage", dict(skeleton="T7", n=3, args={"offset_hours": 0}, deleting=["jobdel"])),
              ("storage", dict(skeleton="T7", n=2, args={"offset_hours": 2}, deleting=["jobdel"])),
              ("storage", dict(skeleton="T7", n=2, args={"offset_hours": 3}, deleting=["jobdel"])),
              ("storage", dict(skeleton="T7", n=2, args={"offset_hours": 1}, sym_sign=["job", "jobdel"])),
              ("storage", dict(skeleton="T2", n=3)),
              ("storage", dict(skeleton="T3", n=2, fixed=3))]
    return p


def h_fp(ctx, n, dur_h, box=((0.0, 0.0), (1.0, 8.0))):
    """Rejection clause in floats: can the cumulative-storage kernel of a deletion-free model go negative in binary64?
    Inputs: data_stored 1 TB per occurrence, replication 1, base need 0, duration `dur_h` hours: every conversion
    factor on the kernel is exactly 1.0, so the DAG is adds/subs of the symbolic starts only."""
    spec = M.T1(n)
    sym = traffic_syms(spec, lo=0, hi=8, nice=(1, 8))
    env = M.Env(ctx, symbolic=sym, values={"st.data_replication_factor": 1, "st.base_storage_need": 0,
                                           "st.data_storage_duration": dur_h, "job.data_stored": 1,
                                           "job.request_duration": 1},
                units={"job.data_stored": "TB", "st.data_storage_duration": "hour"})
    try:
        objs = M.build(spec, env)
    except ValueError as e:
        ctx.require(not where(e).endswith("update_full_cumulative_storage_need"),
                    "negative-storage rejection although no job deletes data", str(e)[:200])
        raise
    cum = objs["st"].full_cumulative_storage_need
    df = cum.value
    ctx.require(str(df.dtypes.iloc[0].units) == "terabyte", "kernel in TB (factor 1.0)")
    for i, (ts, c) in enumerate(zip(df.index, df["value"].values._data)):
        ctx.observe_float(f"cum[{i}]", c)
        ctx.fp_unreachable(c < 0, "negative-storage rejection although no job deletes data", list(box))


def h_fixed_edit(ctx, which, n=2):
    """a user-fixed instance count stays honoured exactly (or the model raises) when it is edited on a live system"""
    from efootprint.abstract_modeling_classes.source_objects import SourceValue
    from efootprint.constants.units import u
    if which == "server":
        spec = M.T5(n, type1="on-premise", type2="serverless", fixed1=50)
        target, slot = "srv", "srv.fixed_nb_of_instances"
    else:
        spec = M.T1(n)
        spec["storages"]["st"]["fixed_nb_of_instances"] = 50
        target, slot = "st", "st.fixed_nb_of_instances"
    sym = traffic_syms(spec, nice=(1, 50))
    sym[slot] = dict(lo=0, lo_strict=True, hi=10 ** 6, nice=(10, 60))
    env = M.Env(ctx, symbolic=sym)
    objs = M.build(spec, env)
    V.observe_system(ctx, objs)
    new = env.fresh("new_fixed", lo=0, lo_strict=True, hi=10 ** 6, nice=(10, 60))
    ctx.assume(new != env.get(slot, None))
    o = objs[target]
    raw_peak = _max([c for c in _cells(o.raw_nb_of_instances).values()])
    try:
        o.fixed_nb_of_instances = SourceValue(new * u.dimensionless)
    except ValueError:
        ctx.holds(ceil_(raw_peak) > new, f"{which}: edited fixed count rejected only when below ceil(peak need)")
        raise
    for t, c in _cells(o.nb_of_instances).items():
        ctx.eq(c, new, f"{which}: edited fixed instance count honoured exactly")
    ctx.le(ceil_(raw_peak), new, f"{which}: accepted edited fixed count covers ceil(peak need)")


HARNESSES["fixed_edit"] = h_fixed_edit
HARNESSES["fp"] = h_fp
_plan0 = plan


def plan(tier, seed):  # noqa: F811
    p = _plan0(tier, seed)
    p += [("fp", dict(n=3, dur_h=1)), ("fp", dict(n=3, dur_h=2)), ("fixed_edit", dict(which="server")),
          ("fixed_edit", dict(which="storage"))]
    if tier == "thorough":
        p += [("fp", dict(n=4, dur_h=1)), ("fp", dict(n=4, dur_h=2)), ("fp", dict(n=4, dur_h=3))]
    return p
