"""C05 — A what-if simulation never disturbs the baseline model."""
from datetime import datetime, timezone, timedelta

from efootprint.abstract_modeling_classes.modeling_update import ModelingUpdate
from harness import model as M, values as V, edits as E, snap as S
from harness.common import traffic_syms, gt_sets
from harness.c01 import _sym_for, collect_slots, resolve, num

PROPERTY = "C05"
LEVEL = "model_checking"
BOUNDS = {"hours_per_series": "N=3", "skeletons": "T1, T5, T9 (T3 in thorough)", "change_lists": "1-2 changes: numeric, "
          "link, list, mixtures", "dates": "first / interior / last hour, one hour before, after the period (concrete)",
          "toggles": "set/reset sequences of length <= 3 ending reset"}
ASSUMPTIONS = ["the baseline is 'observably unchanged' = same objects (identity) in every attribute, dict entry, link and "
               "list of every object, physically equal values, same direct ancestors/children, same active containers; "
               "simulation_twin/baseline_twin annotations and the system's previous_*/all_changes book-keeping are "
               "not counted as disturbance"]
UTC0 = datetime(2024, 12, 31, 23, tzinfo=timezone.utc)   # first UTC hour of a Paris series starting 2025-01-01 00:00
DATES = {"first": 0, "interior": 1, "last": 2, "before": -1, "after": 9, "interior_half": 1.5}


def changes_of(ctx, env0, spec, objs, script):
    """JSON edits -> ModelingUpdate change list [[old, new], ...] (symbolic new values)"""
    changes = []
    prims = []
    for i, je in enumerate(script):
        e = resolve(ctx, env0, env0, spec, je, i)
        o, a = E.attr_of(e)
        changes.append([getattr(objs[o], a), E.new_value(env0, spec, e)(objs)])
        prims.append(e)
    return changes, prims


def h_sim(ctx, skeleton, script, date, n=3, toggles=(), args=None, extra_sym=(), second=None, start=None, tz=None):
    """start / tz: local start date of every usage pattern and time zone of every country (a period that spans a
    daylight-saving transition: repeated or skipped local hours in the series the simulation has to cut)"""
    spec = M.SKELETONS[skeleton](n, **(args or {}))
    if tz:
        for c in spec["countries"].values():
            c["tz"] = tz
    if start:
        for po in spec["patterns"].values():
            po["starts"]["start"] = datetime.fromisoformat(start)
    sym = traffic_syms(spec)
    sym.update(collect_slots(spec, script))
    if second:
        sym.update(collect_slots(spec, second))
    for slot in extra_sym:
        o, p = slot.split(".")
        sym[slot] = _sym_for(spec, o, p)
    env0 = M.Env(ctx, symbolic=sym)
    objs = M.build(spec, env0)
    V.observe_system(ctx, objs, "base.")
    before = S.snapshot(objs)
    changes, prims = changes_of(ctx, env0, spec, objs, script)
    when = UTC0 + timedelta(hours=DATES[date]) if date != "naive" else datetime(2025, 1, 1, 0)
    if start and date != "naive":
        first = min(V.utc_key(ts) for p_ in spec["system"]["patterns"] for ts in objs[p_].utc_hourly_usage_journey_starts.value.index)
        when = (first + timedelta(hours=DATES[date])).to_pydatetime()
    sim, err = None, None
    try:
        sim = ModelingUpdate(changes, when)
    except Exception as e:  # noqa - every way of failing must leave the baseline intact
        err = e
    S.compare_snapshots(ctx, before, S.snapshot(objs), "after creating the simulation" if err is None
                        else f"after the simulation raised {type(err).__name__}")
    if err is not None:
        raise err
    sims = [sim]
    if second:
        # a second simulation created while the first one exists; both are then toggled, the older one too
        changes2, _ = changes_of(ctx, env0, spec, objs, second)
        try:
            sims.append(ModelingUpdate(changes2, when))
        except Exception as e:  # noqa
            S.compare_snapshots(ctx, before, S.snapshot(objs), f"after the second simulation raised {type(e).__name__}")
            raise
        S.compare_snapshots(ctx, before, S.snapshot(objs), "after creating a second simulation")
    for k, sm in enumerate(sims):
        for i, t in enumerate(toggles):
            if t == "set":
                sm.set_updated_values()
            else:
                sm.reset_values()
                S.compare_snapshots(ctx, before, S.snapshot(objs),
                                    f"after toggle {i + 1} ({'/'.join(toggles[:i + 1])}) of simulation {k + 1} of {len(sims)}")
    V.observe_system(ctx, objs, "end.")


HARNESSES = {"sim": h_sim}
L = lambda o, a, t: dict(k="link", obj=o, attr=a, target=t)  # noqa
LA = lambda o, a, names: dict(k="list_assign", obj=o, attr=a, names=names)  # noqa

SCRIPTS_T1 = [[num("job", "data_transferred")], [num("srv", "ram")], [num("srv", "base_ram_consumption")],
              [num("job", "request_duration")], [num("st", "storage_capacity")], [num("step", "user_time_spent")],
              [num("dev", "power")], [num("job", "data_stored")],
              [num("job", "data_transferred"), num("srv", "power_usage_effectiveness")],
              [dict(k="server_type", obj="srv", t="serverless")], [dict(k="fixed", obj="st", val="sym")]]
SCRIPTS_T9 = [[L("job", "server", "srv_alt")], [L("up", "network", "net_alt")], [L("up", "country", "de")],
              [L("up", "usage_journey", "uj_alt")], [LA("step", "jobs", ["job", "job_alt"])],
              [LA("uj", "uj_steps", ["step", "step3"])], [LA("up", "devices", ["dev", "dev_alt"])],
              [L("job", "server", "srv_alt"), num("srv_alt", "ram")], [num("job", "data_transferred"), L("up", "network", "net_alt")],
              [num("job2", "ram_needed")],
              [L("job", "server", "srv_alt"), L("job2", "server", "srv_alt")],
              [L("up", "country", "de"), L("up2", "country", "de")],
              [L("up", "network", "net_alt"), L("up2", "network", "net_alt"), num("net_alt", "bandwidth_energy_intensity")]]
# two structural changes in one update where the second re-points an object that the first one has just put into the
# recomputation chain (and the reverse orders): what the second change newly links must be recomputed too
SCRIPTS_T9_CHAINED = [[LA("step2", "jobs", ["job2", "job"]), L("job", "server", "srv_alt")],
                      [L("job", "server", "srv_alt"), LA("step2", "jobs", ["job2", "job"])],
                      [LA("up", "devices", ["dev_alt"]), L("job", "server", "srv_alt")],
                      [L("up", "usage_journey", "uj_alt"), L("job_alt", "server", "srv_alt")],
                      [LA("uj", "uj_steps", ["step", "step3"]), L("job3", "server", "srv_alt"), L("srv_alt", "storage", "st_free")],
                      [L("up", "network", "net_alt"), L("up", "country", "de"), LA("up", "devices", ["dev", "dev_alt"])]]
SCRIPTS_T5 = [[num("srv", "ram")], [dict(k="fixed", obj="srv", val="sym")], [num("job2", "compute_needed")]]


def plan(tier, seed):
    p = []
    for sc in SCRIPTS_T1:
        p.append(("sim", dict(skeleton="T1", script=sc, date="interior", toggles=["set", "reset"])))
    for sc in SCRIPTS_T1[:4]:
        for d in ("first", "last", "before", "after", "naive"):
            p.append(("sim", dict(skeleton="T1", script=sc, date=d, toggles=["set", "reset", "set", "reset"][:2 + 2 * (d == "first")])))
    for sc in SCRIPTS_T9:
        p.append(("sim", dict(skeleton="T9", script=sc, date="interior", n=2, toggles=["set", "reset"])))
    for sc in SCRIPTS_T9_CHAINED[:3]:
        p.append(("sim", dict(skeleton="T9", script=sc, date="interior", n=2, toggles=["set", "reset"])))
    # link / list changes in a simulation that is refused for its date (nothing may stay attached to the new targets)
    for sc in (SCRIPTS_T9[0], SCRIPTS_T9[4], SCRIPTS_T9[10]):
        for d in ("before", "naive"):
            p.append(("sim", dict(skeleton="T9", script=sc, date=d, n=2, toggles=["set", "reset"])))
    for sc in SCRIPTS_T5:
        p.append(("sim", dict(skeleton="T5", script=sc, date="first", n=2, toggles=["reset", "set", "reset"])))
    p.append(("sim", dict(skeleton="T1", script=[num("job", "data_transferred")], second=[num("srv", "power")], date="interior", toggles=["set", "reset"])))
    # periods spanning a fall-back night (a local hour occurs twice) and a spring-forward night (a local hour is skipped)
    for st, z, d, nn in (("2025-10-25T23:00:00", "Europe/Paris", "interior", 6), ("2025-11-02T00:00:00", "America/New_York", "last", 4),
                         ("2025-03-30T00:00:00", "Europe/Paris", "interior", 5)):
        p.append(("sim", dict(skeleton="T1", script=[num("job", "data_transferred")], date=d, n=nn, start=st, tz=z, toggles=["set", "reset"])))
    p.append(("sim", dict(skeleton="T9", script=[L("up", "network", "net_alt")], date="interior", n=5, start="2025-10-25T23:00:00", tz="Europe/Paris", toggles=["set", "reset"])))
    # simulations whose recomputation fails with another exception than ValueError (a zero request duration divides by
    # zero; a storage given to a second server is refused with PermissionError)
    for d in ("first", "interior"):
        p.append(("sim", dict(skeleton="T1", script=[num("job", "request_duration", value=0)], date=d, toggles=["set", "reset"])))
    p.append(("sim", dict(skeleton="T5", script=[L("srv2", "storage", "st")], date="interior", n=2, toggles=["set", "reset"])))
    # a dated simulation refused by the allowed-values check (on-premise server with a fixed count switched to autoscaling)
    for d in ("first", "interior"):
        p.append(("sim", dict(skeleton="T5", args={"type1": "on-premise", "type2": "serverless", "fixed1": 40},
                              script=[dict(k="server_type", obj="srv", t="autoscaling")], date=d, n=2, toggles=["set", "reset"])))
    p.append(("sim", dict(skeleton="T9", script=[L("job", "server", "srv_alt")], second=[num("job2", "ram_needed")], date="first", n=2, toggles=["set", "reset", "set", "reset"])))
    p.append(("sim", dict(skeleton="T9", script=[num("dev", "power")], second=[L("up", "network", "net_alt")], date="interior", n=3, toggles=["set", "reset"])))
    if tier == "thorough":
        for sc in SCRIPTS_T1:
            for d in ("first", "last"):
                p.append(("sim", dict(skeleton="T1", script=sc, date=d, toggles=["set", "set", "reset"])))
        for sc in SCRIPTS_T9:
            for d in ("first", "last"):
                p.append(("sim", dict(skeleton="T9", script=sc, date=d, n=2, toggles=["set", "reset", "reset"])))
        for sc in ([num("job", "data_transferred")], [num("step", "user_time_spent")], [L("up2", "network", "net")]):
            p.append(("sim", dict(skeleton="T3", script=sc, date="interior", n=2, toggles=["set", "reset"])))
    return p
