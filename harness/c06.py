"""C06 — A what-if simulation computes what really making the change would."""
from datetime import datetime, timezone, timedelta

from efootprint.abstract_modeling_classes.explainable_object_dict import ExplainableObjectDict
from efootprint.abstract_modeling_classes.explainable_objects import EmptyExplainableObject
from efootprint.abstract_modeling_classes.modeling_update import ModelingUpdate
from harness import model as M, values as V, edits as E, snap as S
from harness.common import traffic_syms, gt_sets
from harness.c01 import _sym_for, collect_slots, resolve, num
from harness.c05 import changes_of, UTC0, DATES, SCRIPTS_T1, SCRIPTS_T9, SCRIPTS_T9_CHAINED, SCRIPTS_T5, L, LA

PROPERTY = "C06"
LEVEL = "model_checking"
BOUNDS = {"hours_per_series": "N=3 (T9/T5: 2)", "skeletons": "T1, T5, T9, T3 (two time zones)", "change_lists": "as C05",
          "dates": "first hour (equality with the really-updated model), interior/last and an interior date on a half hour (no earlier hour, pairing, not rejected for its date), "
                   "before/after/naive (rejected)"}
ASSUMPTIONS = ["'really applying the same changes' = the same change list through ModelingUpdate without a date on a "
               "second system built from the same inputs in the same path",
               "skeletons with a job shared by two usage patterns are excluded from the equality clause (known finding R1 "
               "of C01 makes the really-updated model itself stale there)"]


def _entries(v):
    """[(key name or None, explainable value)]"""
    if isinstance(v, ExplainableObjectDict):
        return [(getattr(k, "name", str(k)), e) for k, e in v.items()]
    return [(None, v)]


def h_sim_equal(ctx, skeleton, script, date, n=3, args=None, tz=None, date_tz=None, reference="updated"):
    """date_tz: the simulation date (same instant) written in another time zone than UTC"""
    spec = M.SKELETONS[skeleton](n, **(args or {}))
    if tz:
        for c in spec["countries"].values():
            c["tz"] = tz
    sym = traffic_syms(spec)
    sym.update(collect_slots(spec, script))
    env0 = M.Env(ctx, symbolic=sym)
    objs = M.build(spec, env0)
    V.observe_system(ctx, objs, "base.")
    changes, prims = changes_of(ctx, env0, spec, objs, script)
    if date == "naive":
        when = datetime(2025, 1, 1, 0)
    else:
        first = min(V.utc_key(ts) for p in gt_sets(spec)["patterns"]
                    for ts in objs[p].utc_hourly_usage_journey_starts.value.index)
        when = (first + timedelta(hours=DATES[date])).to_pydatetime()
        if date_tz:
            import pytz
            when = when.astimezone(pytz.timezone(date_tz))
    if date in ("before", "after", "naive"):
        try:
            ModelingUpdate(changes, when)
        except ValueError:
            ctx.require(True, f"simulation dated '{date}' is rejected with ValueError")
            raise
        ctx.require(False, f"simulation dated '{date}' is rejected with ValueError", "it was accepted")
        return
    try:
        sim = ModelingUpdate(changes, when)
    except ValueError as e:
        # the new values may legitimately be refused (capacity...), a date inside the modelled period may not
        ctx.require("modeling period" not in str(e), f"simulation dated '{date}' (inside the modelled period) is not rejected for its date",
                    str(e)[:200])
        raise
    # pairing
    vtr, rv = sim.values_to_recompute, sim.recomputed_values
    ctx.require(len(vtr) == len(rv), "as many recomputed values as values to recompute", f"{len(vtr)} vs {len(rv)}")
    for a, b in zip(vtr, rv):
        where = f"{a.modeling_obj_container.name}.{a.attr_name_in_mod_obj_container}"
        ea, eb = _entries(a), _entries(b)
        if isinstance(a, ExplainableObjectDict):
            continue
        ctx.require(a.simulation_twin is b and b.baseline_twin is a, f"{where}: baseline value and simulated twin are paired both ways")
        ctx.require(getattr(a.modeling_obj_container, a.attr_name_in_mod_obj_container) is a,
                    f"{where}: the baseline value is the one held by the model after the simulation")
    # every calculated attribute that the really-updated model changes must have a twin: checked through equality below
    # the really-updated model
    if reference == "fresh":
        # reference = the model built from scratch with the changed inputs (on systems where a job is shared by two usage
        # patterns a *live* update of the reference model is itself stale: finding R1 of C01)
        spec_u, env_u = spec, env0
        for e in prims:
            spec_u, env_u = E.mirror(spec_u, env_u, e)
        U = M.build(spec_u, env_u)
    else:
        U = M.build(spec, env0)
        changes_u = []
        for e in prims:
            o, a = E.attr_of(e)
            changes_u.append([getattr(U[o], a), E.new_value(env0, spec, e)(U)])
        ModelingUpdate(changes_u)
    V.observe_system(ctx, U, "updated.")
    recomputed_attrs = set()
    for a, b in zip(vtr, rv):
        oname, attr = a.modeling_obj_container.name, a.attr_name_in_mod_obj_container
        recomputed_attrs.add((oname, attr))
        if reference == "fresh" and oname != "system" and not U[oname].systems:
            # the changes take this object out of the system: a model built from scratch does not compute it at all, so the
            # from-scratch reference says nothing about it (the live-update reference of the other instances does)
            continue
        ref = getattr(U[oname], attr)
        for (k, sim_val) in _entries(b):
            ref_val = dict(_entries(ref)).get(k) if isinstance(ref, ExplainableObjectDict) else ref
            lab = f"{oname}.{attr}" + (f"[{k}]" if k else "")
            if ref_val is None:
                ctx.require(False, f"{lab}: simulated entry exists in the really-updated model")
                continue
            ds, cs = V.phys(sim_val)
            dr, cr = V.phys(ref_val)
            if date == "first":
                V.compare_phys(ctx, (ds, cs), (dr, cr), f"simulated = really updated: {lab}")
            else:
                for t in sorted(k_ for k_ in cs if k_ is not None):
                    ctx.require(t >= V.utc_key(when), f"{lab}: simulated series has no hour before the simulation date", str(t))
    # completeness of the pairing: whatever differs between baseline and really-updated model was recomputed
    if date == "first":
        for name, o in objs.items():
            if name not in U or not hasattr(o, "calculated_attributes"):
                continue
            if reference == "fresh" and name != "system" and not (U[name].systems and o.systems):
                continue        # outside the system before or after the changes: not computed by a build from scratch
            for attr in o.calculated_attributes:
                if (name, attr) in recomputed_attrs:
                    continue
                for (k, base_val) in _entries(getattr(o, attr)):
                    ref = getattr(U[name], attr)
                    ref_val = dict(_entries(ref)).get(k) if isinstance(ref, ExplainableObjectDict) else ref
                    if ref_val is not None:
                        V.compare_phys(ctx, base_val, ref_val, f"not recomputed by the simulation => unchanged by the real update: {name}.{attr}")
    # switching the simulation on installs the simulated values in the model: it then *is* the really-updated model
    # (first hour), or at least no longer holds hours before the date; switching it off gives the baseline back
    slots = [(a.modeling_obj_container.name, a.attr_name_in_mod_obj_container, a, b) for a, b in zip(vtr, rv)
             if not isinstance(a, ExplainableObjectDict)]
    sim.set_updated_values()
    if date == "first":
        names = {n for n, o in objs.items() if n in U and hasattr(o, "calculated_attributes")
                 and not (reference == "fresh" and n != "system" and not U[n].systems)}
        V.compare_systems(ctx, objs, U, "after set_updated_values(): model = really updated model", names=names)
    else:
        for oname, attr, a, b in slots:
            ctx.require(getattr(objs[oname], attr) is b, f"{oname}.{attr}: after set_updated_values() the model holds the simulated twin")
    sim.reset_values()
    for oname, attr, a, b in slots:
        ctx.require(getattr(objs[oname], attr) is a, f"{oname}.{attr}: after reset_values() the model holds the baseline value again")


HARNESSES = {"sim_equal": h_sim_equal}


def plan(tier, seed):
    p = []
    for sc in SCRIPTS_T1:
        p.append(("sim_equal", dict(skeleton="T1", script=sc, date="first")))
    for sc in SCRIPTS_T1[:6]:
        for d in ("interior", "last"):
            p.append(("sim_equal", dict(skeleton="T1", script=sc, date=d)))
    # a date that is not on a full hour: no hour before it (the hour it falls in has already begun)
    for sc in SCRIPTS_T1[:3]:
        p.append(("sim_equal", dict(skeleton="T1", script=sc, date="interior_half")))
    for sc in (SCRIPTS_T9[0], SCRIPTS_T9[3]):
        p.append(("sim_equal", dict(skeleton="T9", script=sc, date="interior_half", n=3)))
    # a job shared by two usage patterns (per-usage-pattern dictionaries with two entries); the reference is the model built
    # from scratch with the changed input (finding R1 makes a live update of the reference stale on this topology)
    for sk in ("T3", "T2"):
        p.append(("sim_equal", dict(skeleton=sk, script=[num("job", "data_transferred")], date="first", n=2, reference="fresh")))
    # the same instants written in zones east and west of UTC
    for d, z in (("first", "Asia/Tokyo"), ("first", "America/New_York"), ("interior", "Asia/Kolkata"), ("last", "America/Los_Angeles")):
        p.append(("sim_equal", dict(skeleton="T1", script=SCRIPTS_T1[0], date=d, date_tz=z)))
    p.append(("sim_equal", dict(skeleton="T9", script=SCRIPTS_T9[0], date="first", n=2, date_tz="Australia/Sydney")))
    for d in ("before", "after", "naive"):
        p.append(("sim_equal", dict(skeleton="T1", script=SCRIPTS_T1[0], date=d)))
        p.append(("sim_equal", dict(skeleton="T9", script=SCRIPTS_T9[0], date=d, n=2)))
    for sc in SCRIPTS_T9:
        p.append(("sim_equal", dict(skeleton="T9", script=sc, date="first", n=2)))
    # (reference built from scratch: a grouped real update would go through the same chain computation as the simulation)
    for sc in SCRIPTS_T9_CHAINED:
        p.append(("sim_equal", dict(skeleton="T9", script=sc, date="first", n=2, reference="fresh")))
    for sc in (SCRIPTS_T9[7], SCRIPTS_T9[10], SCRIPTS_T9[12]):
        p.append(("sim_equal", dict(skeleton="T9", script=sc, date="first", n=2, reference="fresh")))
    p.append(("sim_equal", dict(skeleton="T9", script=SCRIPTS_T9_CHAINED[0], date="interior", n=3)))
    for sc in SCRIPTS_T5:
        p.append(("sim_equal", dict(skeleton="T5", script=sc, date="first", n=2)))
    # usage pattern itself in the recomputation chain (link/list changes on it), zones east and west of UTC
    for sc in (SCRIPTS_T9[3], SCRIPTS_T9[6], SCRIPTS_T9[1]):
        p.append(("sim_equal", dict(skeleton="T9", script=sc, date="interior", n=3)))
        p.append(("sim_equal", dict(skeleton="T9", script=sc, date="first", n=2, tz="America/New_York")))
        p.append(("sim_equal", dict(skeleton="T9", script=sc, date="last", n=3, tz="Asia/Kolkata")))
    if tier == "thorough":
        for sc in SCRIPTS_T9:
            for d in ("interior", "last"):
                p.append(("sim_equal", dict(skeleton="T9", script=sc, date=d, n=3)))
        for sc in SCRIPTS_T1[6:]:
            for d in ("interior", "last"):
                p.append(("sim_equal", dict(skeleton="T1", script=sc, date=d)))
        for sc in SCRIPTS_T5:
            for d in ("interior", "last"):
                p.append(("sim_equal", dict(skeleton="T5", script=sc, date=d, n=3)))
    return p
