"""C07 — Every computed value is reproduced by the formula it displays."""
import pandas as pd

from efootprint.abstract_modeling_classes.explainable_object_base_class import ExplainableObject
from efootprint.abstract_modeling_classes.explainable_object_dict import ExplainableObjectDict
from efootprint.abstract_modeling_classes.explainable_objects import (
    EmptyExplainableObject, ExplainableHourlyQuantities, ExplainableQuantity)
from efootprint.abstract_modeling_classes.modeling_object import ModelingObject
from efootprint.constants.units import u
from harness import model as M, values as V
from harness.common import traffic_syms, gt_sets, sym_slots
from sx.core import Sym

PROPERTY = "C07"
LEVEL = "model_checking"
BOUNDS = {"hours_per_series": "N=2", "skeletons": "T1..T5, T7, TX (+ depth-1 edits in thorough); builder systems: video streaming, web application, generative AI on a GPU server, cloud-instance server",
          "nodes": "every node reachable through left_parent/right_parent from every calculated attribute"}
ASSUMPTIONS = ["builder systems: node values compared up to a relative 1e-12 (non-round float constants of data tables converted between units by the real code)",
               "a leaf that is not an attached input is accepted only if it is a labelled constant (exactly 1 hour or a "
               "zero quantity) or a labelled value that carries a source (constants and hypotheses the builder classes state "
               "with their provenance)", "operators checked arithmetically: + - * / ; other operators (max, ceil, shift, sum ...) "
               "only structurally"]


def pv(ev):
    """(dimensionality, cells, kind) of an explainable value"""
    if isinstance(ev, EmptyExplainableObject):
        return None, {}, "empty"
    if isinstance(ev, ExplainableQuantity):
        f, bu, dims = V.base_factor(ev.value.units)
        return ev.value.dimensionality, {None: V._scale(ev.value.magnitude, f)}, "scalar"
    if isinstance(ev, ExplainableHourlyQuantities):
        unit = ev.value.dtypes.iloc[0].units
        f, bu, dims = V.base_factor(unit)
        return u.Quantity(1, unit).dimensionality, \
            {V.utc_key(ts): V._scale(m, f) for ts, m in zip(ev.value.index, ev.value["value"].values._data)}, "hourly"
    return None, None, "object"


def recompute(op, L, R):
    """oracle: cells of `L op R` (L, R = pv tuples); returns (dims, cells, kind) or None if not applicable"""
    (dl, cl, kl), (dr, cr, kr) = L, R
    if kl == "object" or kr == "object":
        return None
    if op in ("+", "-"):
        if kl == "empty" and kr == "empty":
            return None, {}, "empty"
        if kl == "empty":
            return dr, ({k: (v if op == "+" else -v) for k, v in cr.items()}), kr
        if kr == "empty":
            return dl, dict(cl), kl
        if kl != kr:
            return "mismatch"
        keys = set(cl) | set(cr)
        out = {k: (cl.get(k, 0) + cr.get(k, 0)) if op == "+" else (cl.get(k, 0) - cr.get(k, 0)) for k in keys}
        return (dl if dl == dr else "mismatch-dims"), out, kl
    if op in ("*", "/"):
        if kl == "empty" or kr == "empty":
            return None, {}, "empty"
        dims = dl * dr if op == "*" else dl / dr
        f = (lambda a, b: a * b) if op == "*" else (lambda a, b: a / b)
        if kl == "scalar" and kr == "scalar":
            return dims, {None: f(cl[None], cr[None])}, "scalar"
        if kl == "hourly" and kr == "scalar":
            return dims, {k: f(v, cr[None]) for k, v in cl.items()}, "hourly"
        if kl == "scalar" and kr == "hourly":
            return dims, {k: f(cl[None], v) for k, v in cr.items()}, "hourly"
        keys = set(cl) | set(cr)
        return dims, {k: f(cl.get(k, 0), cr.get(k, 0)) for k in keys}, "hourly"
    return None


def is_constant_leaf(node):
    if isinstance(node, ExplainableQuantity):
        try:
            q = node.value
            m = q.magnitude
            if isinstance(m, Sym):
                return False
            return (q.check("[time]") and float(q.to(u.hour).magnitude) == 1.0) or float(m) == 0.0
        except Exception:
            return False
    return False


def check_tree(ctx, owner, attr, root, seen, tolerant=False):
    stack = [root]
    while stack:
        node = stack.pop()
        if id(node) in seen:
            continue
        seen[id(node)] = node
        ctx.count("tree_nodes")
        lp, rp = node.left_parent, node.right_parent
        where = f"{owner}.{attr}"
        if lp is None and rp is None:
            if isinstance(node, EmptyExplainableObject):
                continue
            ctx.require(bool(node.label), f"{where}: leaf has a label")
            attached = node.modeling_obj_container is not None
            if attached:
                cont = node.modeling_obj_container
                is_input = node.attr_name_in_mod_obj_container not in cont.calculated_attributes
                # a calculated attribute without parents is accepted only as a sourced constant chosen by a builder
                # ("request duration from hypothesis"); without a source it is an intermediate result that lost its parents
                ctx.require(is_input or node.source is not None, f"{where}: attached leaf is an input", f"{node.label}")
                ctx.require(node.source is not None, f"{where}: input leaf has a source", f"{node.label}")
            else:
                ctx.require(is_constant_leaf(node) or node.source is not None,
                            f"{where}: unattached leaf is a constant, not a hidden dependency",
                            f"leaf '{node.label}' = {str(node)[:60]}")
            continue
        for par in (lp, rp):
            if par is not None:
                stack.append(par)
        if node.operator in ("+", "-", "*", "/") and lp is not None and rp is not None:
            ctx.count("arith_nodes")
            got = pv(node)
            exp = recompute(node.operator, pv(lp), pv(rp))
            if exp is None:
                continue
            lab = f"{where}: node '{node.operator}' reproduces its value"
            if isinstance(exp, str):
                ctx.require(False, lab, exp)
                continue
            de, ce, ke = exp
            dg, cg, kg = got
            if ke == "empty" or kg == "empty":
                ctx.require(all(_zero(v) for v in (cg or {}).values()) and all(_zero(v) for v in ce.values()) or ke == kg,
                            lab + " (empty)", f"{kg} vs {ke}")
                continue
            ctx.require(dg == de, f"{where}: node '{node.operator}' has the dimension of its operands' combination",
                        f"{dg} vs {de}")
            for k in sorted(set(cg) | set(ce), key=str):
                (ctx.eq_rel if tolerant else ctx.eq)(cg.get(k, 0), ce.get(k, 0), lab)


def _zero(v):
    return (not isinstance(v, Sym)) and float(v) == 0.0


def walk_system(ctx, objs, tolerant=False):
    seen = {}
    for name, o in objs.items():
        if not isinstance(o, ModelingObject):
            continue
        for attr in o.calculated_attributes:
            v = getattr(o, attr)
            vals = list(v.values()) if isinstance(v, ExplainableObjectDict) else [v]
            for val in vals:
                if not isinstance(val, ExplainableObject):
                    ctx.require(False, f"{name}.{attr} is an explainable value", str(type(val)))
                    continue
                if not isinstance(val, EmptyExplainableObject):
                    ctx.require(bool(val.label), f"{name}.{attr} carries a label")
                try:
                    txt = val.explain()
                    ok = isinstance(txt, str) and len(txt) > 0
                except Exception as e:  # noqa
                    ok, txt = False, f"{type(e).__name__}: {e}"
                ctx.require(ok, f"{name}.{attr} can be explained without error", str(txt)[:200])
                check_tree(ctx, name, attr, val, seen, tolerant)


def h_tree(ctx, skeleton, n, drivers, args=None, alt_units=None, values=None, tz=None, start=None):
    """alt_units=k: every input that has another spelling is given in its k-th alternative unit (operands of one
    operation then come in different units of one dimension); values: concrete overrides (e.g. a short storage duration,
    so that expiries really happen within the modelled period)"""
    spec = M.SKELETONS[skeleton](n, **(args or {}))
    # tz / start: time zones per country and a common local start date (a series that spans a fall-back transition has
    # a hole in its UTC index: operands with the same first stamp and length but different time stamps)
    for c, z in (tz or {}).items():
        spec["countries"][c]["tz"] = z
    if start:
        from datetime import datetime
        for po in spec["patterns"].values():
            po["starts"]["start"] = datetime.fromisoformat(start)
    sym = traffic_syms(spec)
    items = []
    if "job" in drivers:
        items += [("jobs", "data_transferred", 0, 10 ** 6, (1, 900)), ("jobs", "data_stored", 0, 10 ** 6, (1, 900)),
                  ("jobs", "ram_needed", 0, 10 ** 5, (1, 900)), ("jobs", "compute_needed", 0, 100, (0.1, 2))]
    if "infra" in drivers:
        items += [("servers", "power", 1, 10 ** 4, (100, 500)), ("servers", "idle_power", 0, 1, (0, 1)),
                  ("servers", "power_usage_effectiveness", 1, 3, (1, 2)), ("servers", "ram", 64, 10 ** 4, (64, 512)),
                  ("storages", "storage_capacity", 0.001, 100, (0.5, 2)), ("storages", "data_replication_factor", 0, 10, (1, 3)),
                  ("storages", "base_storage_need", 0, 100, (0, 1))]
    if "usage" in drivers:
        items += [("devices", "power", 0, 1000, (1, 100)), ("devices", "lifespan", 0.1, 100, (1, 10)),
                  ("countries", "average_carbon_intensity", 0, 1000, (10, 500)),
                  ("networks", "bandwidth_energy_intensity", 0, 10, (0.01, 1)),
                  ("steps", "user_time_spent", 0, 119, (1, 100))]
    sym.update(sym_slots(spec, items))
    env = M.Env(ctx, symbolic={k: v for k, v in sym.items() if k not in (values or {})}, values=dict(values or {}))
    if alt_units is not None:
        from harness.c10 import slots_of, ALT
        vals, units = {}, {}
        for (slot, param, default, un) in slots_of(spec):
            # only inputs that are symbolic here: a concrete default re-expressed in another unit goes through float
            # conversions whose rounding the real-number reading would take at face value
            if ALT.get(un) and slot in sym:
                alt_unit, factor = ALT[un][alt_units % len(ALT[un])]
                v0 = env.get(slot, default)
                vals[slot] = v0 * factor if isinstance(v0, Sym) else float(v0) * float(factor)
                units[slot] = alt_unit
        env = env.child(values=vals, units=units)
    objs = M.build(spec, env)
    V.observe_system(ctx, objs)
    walk_system(ctx, objs)


def h_tree_builders(ctx, kind, choice):
    """explanation trees of systems made with the builder classes (service jobs, GPU server, cloud-instance server)"""
    from harness import c17
    from efootprint.abstract_modeling_classes.source_objects import SourceObject
    if kind == "cloud":
        from efootprint.builders.hardware.boavizta_cloud_server import BoaviztaCloudServer
        from efootprint.core.hardware.storage import Storage
        from efootprint.core.hardware.server_base import ServerTypes
        from efootprint.core.usage.job import Job
        from efootprint.core.system import System
        env = M.Env(ctx, symbolic={f"up.starts[{i}]": dict(lo=0, hi=1000, nice=(1, 40)) for i in range(2)} |
                    {"pjob.ram_needed": dict(lo=0, hi=10 ** 4, nice=(10, 500)), "pjob.data_transferred": dict(lo=0, hi=10 ** 4, nice=(10, 500))})
        st = Storage.from_defaults("st")
        srv = BoaviztaCloudServer.from_defaults("srv", provider=SourceObject(choice[0]), instance_type=SourceObject(choice[1]),
                                                server_type=ServerTypes.autoscaling(), storage=st)
        job = Job("pjob", server=srv, **{p: c17.sv(env, f"pjob.{p}", d, un) for p, d, un in M.PARAMS["job"]})
        A = dict(srv=srv, st=st, pjob=job, **c17.usage_side(env, [job]))
        A["system"] = System("system", [A["up"]])
    else:
        env = M.Env(ctx, symbolic=c17.sym_for(kind))
        A, _B = c17.build_pair(ctx, env, kind, choice, mixed=(kind != "genai"))
        if kind == "genai":
            ctx.assume(V.quantity_base(A["sjob"].request_duration.value)[1] <= 7200)
    V.observe_system(ctx, A)
    # builder classes bring in non-round float constants (benchmark tables, API responses) that the real code converts
    # between units in floats: node values are compared up to a relative 1e-12
    walk_system(ctx, A, tolerant=True)


HARNESSES = {"tree": h_tree, "tree_builders": h_tree_builders}


def plan(tier, seed):
    p = [("tree", dict(skeleton="T1", n=2, drivers=["job", "infra", "usage"])),
         ("tree", dict(skeleton="T3", n=2, drivers=["job"])),
         ("tree", dict(skeleton="T4", n=2, drivers=["usage"])),
         ("tree", dict(skeleton="T5", n=2, drivers=["infra"])),
         ("tree", dict(skeleton="T7", n=2, drivers=["job"])),
         ("tree", dict(skeleton="T3", n=5, drivers=["job"], tz={"fr": "Europe/Paris", "my": "Africa/Johannesburg"}, start="2025-10-26T00:00:00")),
         ("tree", dict(skeleton="T2c", n=4, drivers=[], tz={"fr": "America/New_York", "de": "America/Bogota"}, start="2025-11-02T00:00:00")),
         ("tree_builders", dict(kind="video", choice="720p (1280 x 720)")),
         ("tree_builders", dict(kind="web", choice=["php-symfony", "default"])),
         ("tree_builders", dict(kind="genai", choice=["mistralai", "open-mistral-7b"])),
         ("tree_builders", dict(kind="cloud", choice=["scaleway", "ent1-s"])),
         ("tree", dict(skeleton="TX", n=2, drivers=[])),
         ("tree", dict(skeleton="TX", n=2, drivers=["job"], args={"shared": True})),
         ("tree", dict(skeleton="TX", n=2, drivers=["usage"], args={"same_names": True})),
         ("tree", dict(skeleton="T4", n=2, drivers=["usage"], args={"repeat": True}, values={"step1.user_time_spent": 50})),
         ("tree", dict(skeleton="T1", n=2, drivers=["infra", "job"], alt_units=0)),
         ("tree", dict(skeleton="T5", n=2, drivers=["infra"], alt_units=1)),
         ("tree", dict(skeleton="T1", n=2, drivers=["usage"], alt_units=1)),
         ("tree", dict(skeleton="T1", n=3, drivers=["job"], values={"st.data_storage_duration": 1.5 / 8766})),
         ("tree", dict(skeleton="T7", n=2, drivers=["infra"], values={"st.data_storage_duration": 1 / 8766}, args={"offset_hours": 1}))]
    if tier == "thorough":
        for sk in ("T1", "T2", "T3", "T4", "T5", "T7"):
            for d in (["job"], ["infra"], ["usage"]):
                p.append(("tree", dict(skeleton=sk, n=3, drivers=d)))
        p.append(("tree", dict(skeleton="T5", n=2, drivers=["infra"], args={"type1": "on-premise", "type2": "autoscaling", "fixed1": 4})))
        for sk in ("T1", "T3", "T5", "T7"):
            for k in (0, 1, 2):
                p.append(("tree", dict(skeleton=sk, n=2, drivers=[["job", "infra"], ["infra", "usage"], ["job", "usage"]][k], alt_units=k)))
            p.append(("tree", dict(skeleton=sk, n=3, drivers=["usage"], values={"st.data_storage_duration": 2 / 8766})))
    return p
