"""C08 — The calculation graph is consistent and complete."""
import itertools
import sys

import z3

from efootprint.abstract_modeling_classes.explainable_object_base_class import ExplainableObject
from efootprint.abstract_modeling_classes.explainable_object_dict import ExplainableObjectDict
from efootprint.abstract_modeling_classes.explainable_objects import EmptyExplainableObject, ExplainableQuantity
from efootprint.abstract_modeling_classes.modeling_object import ModelingObject
from efootprint.abstract_modeling_classes.modeling_update import ModelingUpdate
from efootprint.abstract_modeling_classes.source_objects import SourceValue
from efootprint.constants.units import u
from harness import model as M, values as V, edits as E
from harness.common import traffic_syms, gt_sets
from harness.c01 import resolve, collect_slots, num
from harness.c05 import changes_of, UTC0
from harness.c10 import RANGES, slots_of
from sx.core import Sym, SymBool, free_vars, to_z3

PROPERTY = "C08"
LEVEL = "model_checking"
UNCONFIRMED_OK = True
BOUNDS = {"hours_per_series": "N=2", "completeness": "every numeric input of T1 / T5 / T9 is its own solver variable; for every "
          "(input, calculated value) pair: variable occurrence in the value's terms (data dependence) and variables in "
          "decisions taken while the value's update function was on the stack (control dependence)",
          "consistency": "after building T1,T5,T7,T9; after depth-1 edits (numeric, link, list); after a dated simulation and "
          "set/reset toggles", "update order": "attr_updates_chain on every DAG with <= 5 nodes (1024 DAGs) and on every input of "
          "the real systems"}
ASSUMPTIONS = ["a data dependence counts only if the solver finds two values of that input alone giving different results "
               "(x - x does not depend on x), and is reported only after a concrete perturbation on the untouched code "
               "reproduces it", "control dependences without a data dependence are confirmed by perturbation only; unconfirmed "
               "ones are logged", "durations bounded as in C10 so that integer parts stay in 0..3"]


# ------------------------------------------------------------------------------------------------ consistency
def attached_values(objs):
    out = []
    for name, o in objs.items():
        if not isinstance(o, ModelingObject):
            continue
        for attr, v in o.__dict__.items():
            if attr.startswith("previous_") or attr.startswith("initial_"):
                continue
            if isinstance(v, ExplainableObjectDict):
                for k, e in v.items():
                    out.append((f"{name}.{attr}[{getattr(k, 'name', k)}]", e, o, attr, v))
            elif isinstance(v, ExplainableObject):
                out.append((f"{name}.{attr}", v, o, attr, None))
    return out


def is_held(x):
    c = x.modeling_obj_container
    if c is None:
        return False
    cur = c.__dict__.get(x.attr_name_in_mod_obj_container)
    if cur is x:
        return True
    if isinstance(cur, dict):
        return any(e is x for e in cur.values())
    return False


def check_graph(ctx, objs, label, chains=True):
    vals = attached_values(objs)
    for w, v, o, attr, d in vals:
        ctx.require(is_held(v), f"{label}: {w} is attached to the object that holds it")
        for a in v.direct_ancestors_with_id:
            ctx.require(is_held(a), f"{label}: every ancestor of {w} is currently held by the model (not detached/superseded)",
                        f"{a.label}")
            ctx.require(any(c is v for c in a.direct_children_with_id) or
                        (d is not None and any(c.modeling_obj_container is o and c.attr_name_in_mod_obj_container == attr
                                               for c in a.direct_children_with_id)),
                        f"{label}: {w} is listed as a child by its ancestor", f"ancestor {a.label}")
        for c in v.direct_children_with_id:
            ctx.require(is_held(c), f"{label}: every child of {w} is currently held by the model", f"{c.label}")
            ctx.require(any(a is v for a in c.direct_ancestors_with_id) or
                        (d is not None and any(a.modeling_obj_container is o and a.attr_name_in_mod_obj_container == attr
                                               for a in c.direct_ancestors_with_id)),
                        f"{label}: {w} is listed as an ancestor by its child", f"child {c.label}")
    # no cycle
    color = {}

    def dfs(x):
        color[id(x)] = 1
        for c in x.direct_children_with_id:
            st = color.get(id(c), 0)
            if st == 1:
                return False
            if st == 0 and not dfs(c):
                return False
        color[id(x)] = 2
        return True
    acyclic = all(dfs(v) for _, v, _, _, _ in vals if color.get(id(v), 0) == 0)
    ctx.require(acyclic, f"{label}: the calculation graph has no cycle")
    if chains:
        for w, v, o, attr, d in vals:
            if attr in o.calculated_attributes or isinstance(v, EmptyExplainableObject):
                continue
            check_chain(ctx, v, f"{label}: update order of input {w}")


def check_chain(ctx, inp, label):
    chain = inp.attr_updates_chain
    ids = [c.id for c in chain]
    ctx.require(len(ids) == len(set(ids)), f"{label} lists each dependent once", str(ids)[:200])
    desc = {d.id for d in inp.all_descendants_with_id}
    ctx.require(desc == set(ids), f"{label} lists exactly the descendants", f"{sorted(desc ^ set(ids))[:4]}")
    pos = {i: k for k, i in enumerate(ids)}
    ok = True
    for k, c in enumerate(chain):
        entries = list(c.values()) if isinstance(c, ExplainableObjectDict) else [c]
        for e in entries:
            for a in e.direct_ancestors_with_id:
                if a.id in pos and pos[a.id] > k and a.id != c.id:
                    ok = False
    ctx.require(ok, f"{label} places every dependent after what it depends on")


# ------------------------------------------------------------------------------------------------ completeness
def owner_of(objs, spec, slot):
    """input object that carries the variable"""
    if ".starts[" in slot:
        return objs[slot.split(".")[0]].hourly_usage_journey_starts
    o, p = slot.split(".")
    return objs[o].__dict__[p]


def all_input_syms(spec):
    sym = traffic_syms(spec)
    for (s, p, d, un) in slots_of(spec):
        lo, hi, strict, nice = RANGES.get(p, (0, 10 ** 6, False, (max(d / 2, 0.01), d * 2 + 1)))
        sym[s] = dict(lo=lo, hi=hi, lo_strict=strict, nice=nice)
    return sym


def calc_values(objs):
    out = []
    for name, o in objs.items():
        if not isinstance(o, ModelingObject):
            continue
        for attr in o.calculated_attributes:
            v = getattr(o, attr)
            if isinstance(v, ExplainableObjectDict):
                for k, e in v.items():
                    out.append((f"{name}.{attr}[{getattr(k, 'name', k)}]", e, name, attr))
            else:
                out.append((f"{name}.{attr}", v, name, attr))
    return out


def cells_of(v):
    d, c = V.phys(v)
    return c if d != "object" else {}


def _completeness(ctx, objs, in_objs, slots, owners, sym, control, rebuild):
    """for every calculated value and every input slot it depends on (data dependence: the slot's variable occurs in a cell;
    control dependence: it occurs in a decision taken under the value's update function): the slot's value object is among
    the value's recorded ancestors, or a solver query shows that the value does not change with the slot"""
    n_pairs = 0
    for w, v, oname, attr in calc_values(in_objs):
        # empty values are kept: a value can be empty *because* of an input (e.g. a zero duration): control dependence
        anc = {id(a) for a in v.all_ancestors_with_id}
        cells = cells_of(v)
        if ctx.symbolic:
            dvars = set()
            for c in cells.values():
                if isinstance(c, Sym):
                    dvars |= free_vars(c.e)
            cvars = control.get((objs[oname].name, attr), set())
            for s in slots:
                if s not in dvars and s not in cvars:
                    continue
                n_pairs += 1
                if id(owners[s]) in anc:
                    ctx.require(True, f"{w}: depends on {s}, which is among its ancestors")
                    continue
                lab = f"completeness: {w} changes with {s.split('[')[0]} although that input is not among its ancestors"
                x = ctx.vars[s][0]
                alt = ctx.var(f"alt.{s}", **sym[s]) if f"alt.{s}" not in ctx.vars else Sym(ctx.vars[f"alt.{s}"][0])
                if s in dvars:
                    diffs = [to_z3(c) != z3.substitute(to_z3(c), (x, alt.e)) for c in cells.values() if isinstance(c, Sym)]
                    ctx.unreachable(z3.Or(*diffs), lab)
                else:
                    # control dependence only: candidate for the perturbation replay (alt on the other side is not forced)
                    ctx.unreachable(alt.e != x, lab)
        else:
            for s in slots:
                if f"alt.{s}" in ctx.inputs and id(owners[s]) not in anc:
                    lab = f"completeness: {w} changes with {s.split('[')[0]} although that input is not among its ancestors"
                    objs2 = rebuild({s: float(ctx.inputs[f"alt.{s}"])})
                    v2 = dict((a, b) for a, b, _, _ in calc_values(objs2)).get(w)
                    c2 = cells_of(v2) if v2 is not None else {}
                    changed = set(c2) != set(cells) or any(abs(float(c2[k]) - float(cells[k])) > 1e-9 * max(abs(float(c2[k])), abs(float(cells[k])), 1e-300)
                                                           for k in cells if k in c2)
                    ctx.require(not changed, lab, f"{s}: {ctx.inputs[s]} -> {ctx.inputs[f'alt.{s}']}")
    ctx.count("dependence_pairs", n_pairs)


def h_complete(ctx, skeleton, n=2, args=None, only=None):
    spec = M.SKELETONS[skeleton](n, **(args or {}))
    sym = all_input_syms(spec)
    for coll in ("servers", "storages"):
        for nm, o in spec.get(coll, {}).items():
            if o.get("fixed_nb_of_instances") is not None:
                sym[f"{nm}.fixed_nb_of_instances"] = dict(lo=0, lo_strict=True, hi=10 ** 6, nice=(20, 80))
    if only:
        sym = {k: v for k, v in sym.items() if k.split(".")[0] in only and "duration" not in k}
    env = M.Env(ctx, symbolic=sym)
    control = {}   # (obj name, attr) -> set of variable names met in decisions under its update function

    def hook(cond):
        vs = free_vars(cond)
        if not vs:
            return
        fr = sys._getframe(2)
        while fr is not None:
            nm = fr.f_code.co_name
            if nm.startswith("update_") and isinstance(fr.f_locals.get("self"), ModelingObject):
                control.setdefault((fr.f_locals["self"].name, nm[7:]), set()).update(vs)
            fr = fr.f_back
    if ctx.symbolic:
        ctx.decision_hook = hook
    objs = M.build(spec, env)
    if ctx.symbolic:
        ctx.decision_hook = None
    V.observe_system(ctx, objs)
    gt = gt_sets(spec)
    in_system = set(gt["steps"] + gt["journeys"] + gt["devices"] + gt["countries"] + gt["patterns"] + gt["jobs"] + gt["networks"]
                    + gt["servers"] + gt["storages"] + ["system"])
    slots = [s for s in sym if s.split(".")[0] in in_system]
    owners = {s: owner_of(objs, spec, s) for s in slots}
    _completeness(ctx, objs, {k: o for k, o in objs.items() if k in in_system}, slots, owners, sym, control,
                  lambda vals: M.build(spec, env.child(values=vals)))
    check_graph(ctx, {k: o for k, o in objs.items()}, "after building", chains=False)


def h_consistent(ctx, skeleton, script=None, sim=None, n=2, args=None, fresh_graph=False):
    """fresh_graph: after each edit the recorded dependency graph (children/ancestors by object and attribute) must be the
    one of a freshly built system — completeness after a history reduces to completeness of a built system (h_complete)"""
    spec = M.SKELETONS[skeleton](n, **(args or {}))
    sym = traffic_syms(spec)
    if script:
        sym.update(collect_slots(spec, script))
    if sim:
        sym.update(collect_slots(spec, sim["script"]))
    env = M.Env(ctx, symbolic=sym)
    objs = M.build(spec, env)
    V.observe_system(ctx, objs)
    check_graph(ctx, objs, "after building")
    for i, je in enumerate(script or []):
        e = resolve(ctx, env, env, spec, je, i)
        spec, env = E.apply(objs, spec, env, e)
        check_graph(ctx, objs, f"after edit {i + 1} ({je['k']})")
        if fresh_graph:
            from harness.c01 import compare_live_fresh
            compare_live_fresh(ctx, objs, spec, env, f"after edit {i + 1} ({je['k']})", graph=True)
    if sim:
        from datetime import timedelta
        changes, prims = changes_of(ctx, env, spec, objs, sim["script"])
        s = ModelingUpdate(changes, UTC0 + timedelta(hours=sim.get("hour", 1)))
        check_graph(ctx, objs, "after creating a simulation", chains=False)
        for t in sim.get("toggles", []):
            (s.set_updated_values if t == "set" else s.reset_values)()
            if t == "reset":
                check_graph(ctx, objs, "after set/reset toggles", chains=False)


def h_complete_builders(ctx, kind, choice):
    """completeness of the recorded ancestors on systems made with the builder classes (every numeric builder input)"""
    from harness import c17
    env = c17.builder_env(ctx, kind)
    sym = env.symbolic
    control = {}

    def hook(cond):
        vs = free_vars(cond)
        if not vs:
            return
        fr = sys._getframe(2)
        while fr is not None:
            nm = fr.f_code.co_name
            if nm.startswith("update_") and isinstance(fr.f_locals.get("self"), ModelingObject):
                control.setdefault((fr.f_locals["self"].name, nm[7:]), set()).update(vs)
            fr = fr.f_back
    if ctx.symbolic:
        ctx.decision_hook = hook
    A = c17.builder_system(ctx, env, kind, choice)
    if ctx.symbolic:
        ctx.decision_hook = None
    V.observe_system(ctx, A)
    owners = {}
    for slot in sym:
        name, param = slot.split(".", 1)
        if name == "up" and param.startswith("starts"):
            owners[slot] = A["up"].hourly_usage_journey_starts
        elif name in A and hasattr(A[name], param):
            owners[slot] = getattr(A[name], param)
    slots = list(owners)
    in_objs = {k: o for k, o in A.items() if isinstance(o, ModelingObject)}
    _completeness(ctx, A, in_objs, slots, owners, sym, control,
                  lambda vals: c17.builder_system(ctx, env.child(values=vals), kind, choice))


def h_categorical_ancestors(ctx, skeleton, start, tz=None, n=4, args=None):
    """completeness for the inputs that are not numbers: the country's time zone is an ancestor of the UTC journey starts
    (whatever the date: ordinary days, the night an hour is skipped, the night an hour is repeated), the server type of
    the instance counts, and an edit of either recomputes the values that depend on it (live = fresh)"""
    import pytz
    from datetime import datetime
    from efootprint.abstract_modeling_classes.source_objects import SourceObject
    spec = M.SKELETONS[skeleton](n, **(args or {}))
    for c in spec["countries"].values():
        if tz:
            c["tz"] = tz
    for po in spec["patterns"].values():
        po["starts"]["start"] = datetime.fromisoformat(start)
    env = M.Env(ctx, symbolic=traffic_syms(spec))
    objs = M.build(spec, env)
    V.observe_system(ctx, objs)
    gt = gt_sets(spec)
    for p_ in gt["patterns"]:
        up, country = objs[p_], objs[spec["patterns"][p_]["country"]]
        for attr in ("utc_hourly_usage_journey_starts", "nb_usage_journeys_in_parallel", "energy_footprint"):
            anc = {id(a) for a in getattr(up, attr).all_ancestors_with_id}
            ctx.require(id(country.timezone) in anc, f"{p_}.{attr}: the country's time zone is among its ancestors")
        for j in gt["jobs_of_pattern"][p_]:
            anc = {id(a) for a in objs[j].hourly_occurrences_across_usage_patterns.all_ancestors_with_id}
            ctx.require(id(country.timezone) in anc, f"{j}.hourly_occurrences_across_usage_patterns: time zone of {p_}'s country among its ancestors")
    for s_ in gt["servers"]:
        srv = objs[s_]
        for attr in ("nb_of_instances", "instances_energy", "energy_footprint"):
            anc = {id(a) for a in getattr(srv, attr).all_ancestors_with_id}
            ctx.require(id(srv.server_type) in anc, f"{s_}.{attr}: the server type is among its ancestors")
    # editing the zone on the live system = building with the new zone
    c0 = spec["patterns"][gt["patterns"][0]]["country"]
    new_zone = "Asia/Tokyo" if spec["countries"][c0].get("tz") != "Asia/Tokyo" else "Europe/Paris"
    objs[c0].timezone = SourceObject(pytz.timezone(new_zone))
    spec2 = M.spec_copy(spec)
    spec2["countries"][c0]["tz"] = new_zone
    from harness.c01 import compare_live_fresh
    compare_live_fresh(ctx, objs, spec2, env, f"after setting {c0}.timezone to {new_zone}", graph=False)


def h_consistent_builders(ctx, kind, choice, edit=True):
    """graph consistency of systems made with the builder classes, after building and after editing a builder input"""
    from harness import c17
    env = c17.builder_env(ctx, kind)
    A = c17.builder_system(ctx, env, kind, choice)
    V.observe_system(ctx, A)
    check_graph(ctx, A, "after building")
    if edit:
        name, param, unit, (lo, hi, nice) = c17.BUILDER_EDITS[kind]
        new = env.fresh(f"new.{name}.{param}", lo=lo, hi=hi, lo_strict=True, nice=nice)
        setattr(A[name], param, SourceValue(new * u(unit)))
        check_graph(ctx, A, f"after editing {name}.{param}")


class _Mock(ModelingObject):
    def __init__(self, name):
        super().__init__(name)

    @property
    def modeling_objects_whose_attributes_depend_directly_on_me(self):
        return []

    @property
    def systems(self):
        return []

    @property
    def calculated_attributes(self):
        return [f"n{i}" for i in range(1, 5)]


def h_mock_dags(ctx, nodes):
    """attr_updates_chain on every DAG over `nodes` nodes (edges i -> j only for i < j), rooted at n0"""
    pairs = [(i, j) for j in range(1, nodes) for i in range(j)]
    count = 0
    for mask in range(2 ** len(pairs)):
        edges = [p for k, p in enumerate(pairs) if mask >> k & 1]
        parents = {j: [i for i, jj in edges if jj == j] for j in range(1, nodes)}
        m = _Mock("mock")
        m.trigger_modeling_updates = False
        vals = {0: SourceValue(1 * u.dimensionless, label="n0")}
        m.n0 = vals[0]
        for j in range(1, nodes):
            ps = parents[j]
            if not ps:
                v = SourceValue(1 * u.dimensionless, label=f"n{j}")
            else:
                v = vals[ps[0]]
                v = v + SourceValue(0 * u.dimensionless, label="zero") if len(ps) == 1 else v
                for q in ps[1:]:
                    v = v + vals[q]
                v = v.set_label(f"n{j}")
            setattr(m, f"n{j}", v)
            vals[j] = getattr(m, f"n{j}")
        m.trigger_modeling_updates = False
        reach = set()
        stack = [0]
        while stack:
            x = stack.pop()
            for i, j in edges:
                if i == x and j not in reach:
                    reach.add(j)
                    stack.append(j)
        chain = [c.attr_name_in_mod_obj_container for c in vals[0].attr_updates_chain]
        exp = {f"n{j}" for j in reach}
        ok = set(chain) == exp and len(chain) == len(set(chain)) and all(
            chain.index(f"n{i}") < chain.index(f"n{j}") for i, j in edges if i in reach and j in reach)
        count += 1
        if not ok:
            ctx.require(False, f"update order on a {nodes}-node DAG lists each dependent once, after its ancestors",
                        f"edges {edges}: chain {chain}")
            return
    ctx.require(True, f"update order correct on all {count} DAGs with {nodes} nodes")
    ctx.count("mock_dags", count)


HARNESSES = {"complete": h_complete, "consistent": h_consistent, "mock_dags": h_mock_dags, "consistent_builders": h_consistent_builders, "complete_builders": h_complete_builders,
             "categorical_ancestors": h_categorical_ancestors}
L = lambda o, a, t: dict(k="link", obj=o, attr=a, target=t)  # noqa


def plan(tier, seed):
    p = [("complete", dict(skeleton="T1"), dict(max_paths=400, max_seconds=220)),
         ("complete", dict(skeleton="T5", args={"type1": "on-premise", "type2": "serverless"}, only=["srv", "srv2", "job", "job2", "up"]),
          dict(max_paths=300, max_seconds=220)),
         ("complete", dict(skeleton="T5", args={"type1": "on-premise", "type2": "autoscaling", "fixed1": 40}, only=["srv", "srv2", "job", "job2", "up"]),
          dict(max_paths=300, max_seconds=220)),
         ("mock_dags", dict(nodes=3)), ("mock_dags", dict(nodes=4)), ("mock_dags", dict(nodes=5))]
    for sk in ("T1", "T5", "T7", "T9", "TX"):
        p.append(("consistent", dict(skeleton=sk)))
    for st, z in (("2025-01-01T00:00:00", None), ("2025-03-30T00:00:00", "Europe/Paris"), ("2025-10-26T00:00:00", "Europe/Paris"),
                  ("2025-03-09T00:00:00", "America/New_York")):
        p.append(("categorical_ancestors", dict(skeleton="T5", start=st, tz=z, args={"type1": "on-premise", "type2": "serverless"})))
    p.append(("categorical_ancestors", dict(skeleton="T9", start="2025-03-30T01:00:00", tz="Europe/Berlin", n=3)))
    from harness.c17 import BUILDER_CASES
    for kind, choice in BUILDER_CASES:
        p.append(("consistent_builders", dict(kind=kind, choice=choice)))
        p.append(("complete_builders", dict(kind=kind, choice=choice), dict(max_paths=200, max_seconds=200)))
    p.append(("complete", dict(skeleton="TX", only=["srv", "st", "job", "job3", "net", "up", "up2"]), dict(max_paths=300, max_seconds=220)))
    for sc in ([num("job", "data_transferred")], [num("job", "request_duration")], [num("srv", "ram")],
               [num("step", "user_time_spent")], [num("st", "data_storage_duration")]):
        p.append(("consistent", dict(skeleton="T1", script=sc, fresh_graph=True)))
    # two edits of the same input in a row (a node kept from the first edit must not keep a superseded parent)
    for o, q in (("job", "request_duration"), ("step", "user_time_spent"), ("st", "data_storage_duration"), ("job", "data_stored")):
        p.append(("consistent", dict(skeleton="T1", script=[num(o, q), num(o, q)], fresh_graph=True)))
    for sc in ([L("job", "server", "srv_alt")], [L("up", "network", "net_alt")], [L("up", "usage_journey", "uj_alt")],
               [dict(k="list_op", obj="uj", attr="uj_steps", op="append", args=["step3"])],
               [dict(k="list_assign", obj="up", attr="devices", names=["dev", "dev_alt"])]):
        p.append(("consistent", dict(skeleton="T9", script=sc)))
    p.append(("consistent", dict(skeleton="T1", sim=dict(script=[num("job", "data_transferred")], toggles=["set", "reset"]))))
    p.append(("consistent", dict(skeleton="T9", sim=dict(script=[L("job", "server", "srv_alt")], toggles=["set", "reset", "set", "reset"]))))
    p.append(("consistent", dict(skeleton="T1", sim=dict(script=[num("srv", "power")], toggles=["set", "reset"]), script=[num("job", "ram_needed")])))
    if tier == "thorough":
        p += [("complete", dict(skeleton="T9"), dict(max_paths=3000, max_seconds=3000)),
              ("complete", dict(skeleton="T7", n=2), dict(max_paths=3000, max_seconds=3000)),
              ("complete", dict(skeleton="T1", n=3), dict(max_paths=3000, max_seconds=3000))]
        from harness.c01 import single_edits, link_edits9
        for e, inv in single_edits("T1"):
            p.append(("consistent", dict(skeleton="T1", script=[e] + ([inv] if inv else []))))
        for e, inv in link_edits9():
            p.append(("consistent", dict(skeleton="T9", script=[e, inv])))
    return p
