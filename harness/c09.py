"""C09 — Explainable quantities obey unit-safe arithmetic."""
import itertools
import random
from datetime import datetime, timedelta, timezone

import pandas as pd
import pint

from efootprint.abstract_modeling_classes.explainable_objects import (
    EmptyExplainableObject, ExplainableHourlyQuantities, ExplainableQuantity)
from efootprint.builders.time_builders import create_hourly_usage_df_from_list
from efootprint.constants.units import u
from harness import values as V
from sx.core import ite, floor_, sym_eq, or_, and_, Sym, where

PROPERTY = "C09"
LEVEL = "model_checking"
BOUNDS = {"cells_per_series": "N<=3", "index_shapes": "same / shifted by 1 h / disjoint / longer / tz-aware UTC / naive / same first stamp and length with an hour missing in one or both operands",
          "unit_pairs": "GB-MB, hour-min, W-kW, dimensionless-percent (compatible); GB-hour, W-dimensionless, cpu_core-gpu, gpu-dimensionless (incompatible "
                        "for + -, fine for * /)", "shift": "[0, 3 h]",
          "operators": "+ - * / and reflected, sum max abs ceil neg copy round to shift np_compared_with "
                       "compare_with_and_return_max"}
ASSUMPTIONS = ["an operand combination the classes do not support may raise; what is checked is that a returned value is "
               "physically right, has the right dimension, and that operands keep their physical value",
               "hourly subtraction is only checked on operands with the same index (pandas gives NaN for unmatched stamps, "
               "the statement speaks of addition and multiplication)", "divisors are non-zero"]
T0 = datetime(2025, 1, 1)
HOUR = timedelta(hours=1)


def mk(ctx, kind, name, unit, n=2, offset=0, tz=None, skip=()):
    """operand factory -> (explainable object or number, description); skip: positions of hours left out of an hourly
    operand's index (n values over n + len(skip) hours: what convert_to_utc yields across the end of summer time)"""
    if kind == "empty":
        return EmptyExplainableObject()
    if kind == "zero":
        return 0
    if kind == "scalar":
        v = ctx.var(f"{name}", lo=-1000, hi=1000, nice=(1, 50))
        return ExplainableQuantity(v * u(unit), label=f"scalar {name}")
    if kind == "hourly":
        vals = [ctx.var(f"{name}[{i}]", lo=-1000, hi=1000, nice=(1, 50)) for i in range(n)]
        start = T0 + offset * HOUR
        if skip:
            it = iter(vals)
            full = [0 if i in skip else next(it) for i in range(n + len(skip))]
            df = create_hourly_usage_df_from_list(full, start_date=start, pint_unit=u(unit))
            df = df.drop(index=[df.index[i] for i in skip])
        else:
            df = create_hourly_usage_df_from_list(vals, start_date=start, pint_unit=u(unit))
        if tz:
            df = df.tz_localize(tz)
        return ExplainableHourlyQuantities(df, label=f"hourly {name}")
    raise ValueError(kind)


def pv(x):
    """(dimensionality or None, cells, kind)"""
    if isinstance(x, (int, float)) and not isinstance(x, Sym):
        return None, {None: x}, "number"
    if isinstance(x, EmptyExplainableObject):
        return None, {}, "empty"
    if isinstance(x, ExplainableQuantity):
        f, bu, dims = V.base_factor(x.value.units)
        return x.value.dimensionality, {None: V._scale(x.value.magnitude, f)}, "scalar"
    if isinstance(x, ExplainableHourlyQuantities):
        unit = x.value.dtypes.iloc[0].units
        f, bu, dims = V.base_factor(unit)
        return u.Quantity(1, unit).dimensionality, \
            {V.utc_key(ts) if ts.tzinfo is not None else pd.Timestamp(ts): V._scale(m, f)
             for ts, m in zip(x.value.index, x.value["value"].values._data)}, "hourly"
    raise TypeError(type(x))


def expected(op, A, B):
    """oracle for a binary operator on pv tuples -> pv tuple, 'raise' (must not return a number) or None (unsupported:
    anything goes)"""
    (da, ca, ka), (db, cb, kb) = A, B
    if ka == "number" or kb == "number":
        return None
    if op in ("+", "-"):
        if ka == "empty" and kb == "empty":
            return None, {}, "empty"
        if kb == "empty":
            return da, dict(ca), ka
        if ka == "empty":
            return (db, dict(cb), kb) if op == "+" else None
        if ka != kb:
            return "raise"
        if da != db:
            return "raise"
        if ka == "hourly" and op == "-" and set(ca) != set(cb):
            return None
        keys = set(ca) | set(cb)
        return da, {k: (ca.get(k, 0) + cb.get(k, 0)) if op == "+" else (ca.get(k, 0) - cb.get(k, 0)) for k in keys}, ka
    if op in ("*", "/"):
        if ka == "empty" or kb == "empty":
            # absorbing for multiplication; division with an empty operand is not part of the statement
            return (None, {}, "empty") if op == "*" else None
        if op == "/" and ka == "hourly" and kb == "hourly":
            return "raise"
        dims = da * db if op == "*" else da / db
        f = (lambda x, y: x * y) if op == "*" else (lambda x, y: x / y)
        if ka == "scalar" and kb == "scalar":
            return dims, {None: f(ca[None], cb[None])}, "scalar"
        if ka == "hourly" and kb == "scalar":
            return dims, {k: f(v, cb[None]) for k, v in ca.items()}, "hourly"
        if ka == "scalar" and kb == "hourly":
            return dims, {k: f(ca[None], v) for k, v in cb.items()}, "hourly"
        keys = set(ca) | set(cb)
        return dims, {k: f(ca.get(k, 0), cb.get(k, 0)) for k in keys}, "hourly"
    raise ValueError(op)


def apply_op(op, a, b):
    return {"+": lambda: a + b, "-": lambda: a - b, "*": lambda: a * b, "/": lambda: a / b}[op]()


def _tz_mixed(A, B):
    ka = [k for k in A[1] if k is not None]
    kb = [k for k in B[1] if k is not None]
    return bool(ka) and bool(kb) and ((ka[0].tzinfo is None) != (kb[0].tzinfo is None))


def check_result(ctx, res, exp, lab):
    dr, cr, kr = pv(res)
    de, ce, ke = exp
    if ke == "empty":
        ctx.require(kr == "empty" or (kr == "number" and cr[None] == 0), f"{lab}: result is empty", kr)
        return
    ctx.require(kr == ke, f"{lab}: result kind", f"{kr} vs {ke}")
    ctx.require(dr == de, f"{lab}: result dimension", f"{dr} vs {de}")
    ctx.require(set(cr) == set(ce), f"{lab}: result time stamps = union of operand time stamps",
                f"{sorted(map(str, set(cr) ^ set(ce)))[:4]}")
    for k in sorted(set(cr) & set(ce), key=str):
        ctx.eq(cr[k], ce[k], f"{lab}: value")


def h_binary(ctx, op, ka, ua, kb, ub, shape="same", n=2):
    off_b, n_b, tz_a, tz_b = {"same": (0, n, None, None), "shifted": (1, n, None, None), "disjoint": (n + 1, n, None, None),
                              "longer": (0, n + 1, None, None), "utc": (0, n, "UTC", "UTC"),
                              "mixed_tz": (0, n, "UTC", None),
                              # same first stamp, same number of values, not the same hours
                              "hole": (0, n, None, None), "hole_utc": (0, n, "UTC", "UTC"), "hole_both": (0, n, "UTC", "UTC"),
                              "hole_left": (0, n, "UTC", "UTC")}[shape]
    skip_a = {"hole_both": (1,), "hole_left": (n - 1,)}.get(shape, ())
    skip_b = {"hole": (n - 1,), "hole_utc": (1,), "hole_both": (n - 1,)}.get(shape, ())
    a = mk(ctx, ka, "a", ua, n, 0, tz_a, skip=skip_a if ka == "hourly" else ())
    b = mk(ctx, kb, "b", ub, n_b, off_b, tz_b, skip=skip_b if kb == "hourly" else ())
    A0, B0 = pv(a), pv(b)
    exp = expected(op, A0, B0)
    if op in ("+", "-") and ((ua, ub) in INCOMPAT or (ub, ua) in INCOMPAT) and ka != "empty" and kb != "empty" \
            and ka != "zero" and kb != "zero":
        # stated independently of the unit registry under test (the custom units cpu_core and gpu are separate dimensions)
        exp = "raise"
    if op == "/" and kb in ("scalar", "hourly"):
        for v in B0[1].values():
            ctx.assume(v != 0)
    lab = f"{ka}[{ua}] {op} {kb}[{ub}] ({shape})"
    try:
        res = apply_op(op, a, b)
    except (ValueError, TypeError, NotImplementedError, pint.DimensionalityError, AttributeError) as e:
        ctx.require(exp is None or exp == "raise" or _tz_mixed(A0, B0), f"{lab}: a supported combination does not raise",
                    f"{type(e).__name__}: {str(e)[:120]}")
        ctx.count("raised")
        return
    if exp == "raise":
        ctx.require(False, f"{lab}: incompatible operands raise instead of yielding a value", f"got {type(res).__name__}")
        return
    if exp is not None:
        check_result(ctx, res, exp, lab)
    # operands keep their physical value
    for nm, before, obj in (("left", A0, a), ("right", B0, b)):
        after = pv(obj)
        ctx.require(after[0] == before[0] and set(after[1]) == set(before[1]), f"{lab}: {nm} operand keeps dimension and index")
        for k in before[1]:
            if k in after[1]:
                ctx.eq(after[1][k], before[1][k], f"{lab}: {nm} operand keeps its physical value")
    # commutativity for + and *
    if op in ("+", "*") and exp is not None:
        try:
            res2 = apply_op(op, b, a)
        except (ValueError, TypeError, NotImplementedError, pint.DimensionalityError) as e:
            ctx.require(False, f"{lab}: commuted operation also works", f"{type(e).__name__}")
            return
        check_result(ctx, res2, exp, lab + " commuted")
    # totals add up
    if op == "+" and exp is not None and ka == "hourly" and kb == "hourly" and not isinstance(res, EmptyExplainableObject):
        sa, sb, sr = pv(a.sum())[1][None], pv(b.sum())[1][None], pv(res.sum())[1][None]
        ctx.eq(sr, sa + sb, f"{lab}: sum of the sum = sum of sums")


def h_helper(ctx, helper, unit="GB", n=3, unit2=None, shape="same"):
    lab = f"{helper}[{unit}{'/' + unit2 if unit2 else ''},{shape}]"
    if helper.startswith("after_to:"):
        # the same contracts on a series that was read, then converted in place to another unit of its dimension
        sub = helper.split(":", 1)[1]
        h = mk(ctx, "hourly", "h", unit, n)
        str(h.unit), str(h)                      # a read before the conversion
        _ = h + h
        before = pv(h)
        h.to(u(unit2))
        after = pv(h)
        for k in before[1]:
            ctx.eq(after[1][k], before[1][k], f"{lab}: conversion keeps the physical value")
        cells = [after[1][k] for k in sorted(after[1])]
        ks = sorted(after[1])
        if sub == "sum":
            ctx.eq(pv(h.sum())[1][None], sum(cells), f"{lab}: sum")
        elif sub == "max":
            m = pv(h.max())[1][None]
            for c in cells:
                ctx.le(c, m, f"{lab}: max >= every cell")
        elif sub in ("abs", "neg", "copy"):
            r = pv({"abs": h.abs, "neg": lambda: -h, "copy": h.copy}[sub]())
            for k in ks:
                e = after[1][k] if sub == "copy" else (-after[1][k] if sub == "neg" else ite(after[1][k] >= 0, after[1][k], -after[1][k]))
                ctx.eq(r[1][k], e, f"{lab}: physical value of the result")
            ctx.require(r[0] == after[0], f"{lab}: dimension")
        elif sub in ("ceil", "round"):
            raw0 = list(h.value["value"].values._data)
            r = h.ceil() if sub == "ceil" else round(h, 2)
            R = pv(r)
            f = V.base_factor(r.unit)[0]
            for k, x in zip(ks, raw0):
                if sub == "ceil":
                    ctx.le(after[1][k], R[1][k], f"{lab}: x <= ceil x (physically)")
                    ctx.lt(R[1][k], after[1][k] + f, f"{lab}: ceil x < x + 1 unit (physically)")
                else:
                    ctx.le(R[1][k] - after[1][k], 0.005 * f, f"{lab}: round(x,2) - x <= 0.005 unit (physically)")
                    ctx.le(after[1][k] - R[1][k], 0.005 * f, f"{lab}: x - round(x,2) <= 0.005 unit (physically)")
        elif sub == "shift":
            r = pv(h.return_shifted_hourly_quantities(ExplainableQuantity(1 * u.hour, "shift")))
            for k in ks:
                ctx.eq(r[1].get(k + HOUR, 0), after[1][k], f"{lab}: shifted values keep their physical value")
        elif sub == "add_self":
            r = pv(h + (-h))
            for k in ks:
                ctx.eq(r[1][k], 0, f"{lab}: a + (-a) = 0")
        elif sub == "mul_scalar":
            q = mk(ctx, "scalar", "q", "percent")
            r = pv(h * q)
            Q = pv(q)
            for k in ks:
                ctx.eq(r[1][k], after[1][k] * Q[1][None], f"{lab}: product with a percent scalar")
        return
    if helper in ("compare_max",):
        a, b = mk(ctx, "scalar", "a", unit), mk(ctx, "scalar", "b", unit2 or unit)
        r = a.compare_with_and_return_max(b)
        A, B, R = pv(a), pv(b), pv(r)
        ctx.eq(R[1][None], ite(A[1][None] >= B[1][None], A[1][None], B[1][None]), f"{lab}: physical maximum")
        return
    h = mk(ctx, "hourly", "h", unit, n)
    H0 = pv(h)
    raw0 = list(h.value["value"].values._data)
    cells = [H0[1][k] for k in sorted(H0[1])]
    if helper == "sum":
        ctx.eq(pv(h.sum())[1][None], sum(cells), f"{lab}: sum of cells")
        ctx.require(pv(h.sum())[0] == H0[0], f"{lab}: dimension")
    elif helper == "mean":
        ctx.eq(pv(h.mean())[1][None] * n, sum(cells), f"{lab}: mean x n = sum")
    elif helper == "max":
        m = pv(h.max())[1][None]
        for c in cells:
            ctx.le(c, m, f"{lab}: max >= every cell")
        ctx.holds(or_(*[sym_eq(m, c) for c in cells]), f"{lab}: max is one of the cells")
    elif helper == "abs":
        r = pv(h.abs())
        for k in sorted(H0[1]):
            ctx.eq(r[1][k], ite(H0[1][k] >= 0, H0[1][k], -H0[1][k]), f"{lab}: |x| per cell")
    elif helper == "neg":
        r = pv(-h)
        for k in sorted(H0[1]):
            ctx.eq(r[1][k], -H0[1][k], f"{lab}: -x per cell")
        ctx.require(r[0] == H0[0], f"{lab}: dimension")
    elif helper == "ceil":
        r = h.ceil()
        raw = list(r.value["value"].values._data)
        ctx.require(str(r.unit) == str(h.unit), f"{lab}: unit kept")
        for x, c in zip(raw0, raw):
            ctx.le(x, c, f"{lab}: x <= ceil x")
            ctx.lt(c, x + 1, f"{lab}: ceil x < x + 1")
            ctx.eq(c, floor_(c), f"{lab}: ceil x integral")
    elif helper == "round":
        for r in (round(h, 2), h.copy().round(2)):
            raw = list(r.value["value"].values._data)
            for x, c in zip(raw0, raw):
                ctx.le(c - x, 0.005, f"{lab}: round(x,2) - x <= 0.005")
                ctx.le(x - c, 0.005, f"{lab}: x - round(x,2) <= 0.005")
                ctx.eq(c * 100, floor_(c * 100), f"{lab}: 100 round(x,2) integral")
    elif helper == "copy":
        c = h.copy()
        ctx.require(c is not h and c.value is not h.value, f"{lab}: new object")
        V.compare_phys(ctx, c, h, f"{lab}: same value")
    elif helper == "to":
        before = V.phys(h)
        r = h.to(u(unit2))
        ctx.require(str(r.unit) == str(u(unit2).units if hasattr(u(unit2), "units") else u(unit2)), f"{lab}: unit changed",
                    str(r.unit))
        V.compare_phys(ctx, r, before, f"{lab}: physical value unchanged")
    elif helper == "shift":
        d = ctx.var("d", lo=0, hi=3 * 60, nice=(1, 170))
        r = h.return_shifted_hourly_quantities(ExplainableQuantity(d * u.min, "shift"))
        R = pv(r)
        F = floor_(d / 60)
        ks = sorted(H0[1])
        exp = {}
        for j in range(0, len(ks) + 4):
            t = ks[0] + j * HOUR
            acc = 0
            for i, k in enumerate(ks):
                delta = j - i
                if 0 <= delta <= 3:
                    acc = acc + ite(sym_eq(F, delta), H0[1][k], 0)
            exp[t] = acc
        for t in sorted(set(exp) | set(R[1])):
            ctx.eq(R[1].get(t, 0), exp.get(t, 0), f"{lab}: every value moved by floor(d/1h) hours")
        ctx.eq(sum(R[1].values()), sum(cells), f"{lab}: total kept")
    elif helper in ("ew_max", "ew_min"):
        off, n2 = {"same": (0, n), "shifted": (1, n), "longer": (0, n + 1), "hole": (0, n)}[shape]
        g = mk(ctx, "hourly", "g", unit2 or unit, n2, off, skip=(n - 1,) if shape == "hole" else ())
        G0 = pv(g)
        try:
            r = h.np_compared_with(g, "max" if helper == "ew_max" else "min")
        except ValueError as e:
            ctx.require(False, f"{lab}: element-wise max/min of two series works for any index alignment",
                        f"{type(e).__name__}: {str(e)[:100]}")
            return
        R = pv(r)
        keys = sorted(set(H0[1]) | set(G0[1]))
        ctx.require(set(R[1]) == set(keys), f"{lab}: result stamps = union of operand stamps",
                    f"{sorted(map(str, set(R[1]) ^ set(keys)))[:4]}")
        for k in keys:
            x, y = H0[1].get(k, 0), G0[1].get(k, 0)
            e = ite(x >= y, x, y) if helper == "ew_max" else ite(x <= y, x, y)
            if k in R[1]:
                ctx.eq(R[1][k], e, f"{lab}: physical element-wise {'max' if helper == 'ew_max' else 'min'} per time stamp")
        e0 = h.np_compared_with(EmptyExplainableObject(), "max" if helper == "ew_max" else "min")
        E0 = pv(e0)
        for k in sorted(H0[1]):
            x = H0[1][k]
            ctx.eq(E0[1][k], (ite(x >= 0, x, 0) if helper == "ew_max" else ite(x <= 0, x, 0)), f"{lab}: against an empty value (0)")
    else:
        raise ValueError(helper)
    # the operand keeps its physical value (helpers that convert in place excluded: to/round-in-place use copies above)
    if helper not in ("to",):
        after = pv(h)
        for k in H0[1]:
            ctx.eq(after[1][k], H0[1][k], f"{lab}: operand keeps its physical value")


HARNESSES = {"binary": h_binary, "helper": h_helper}
COMPAT = [("GB", "MB"), ("hour", "min"), ("W", "kW"), ("dimensionless", "percent"), ("GB", "GB")]
INCOMPAT = [("GB", "hour"), ("W", "dimensionless"), ("cpu_core", "gpu"), ("gpu", "dimensionless")]   # incl. the custom units
KINDS = ["scalar", "hourly", "empty"]


def plan(tier, seed):
    rnd = random.Random(seed)
    p = []
    pairs_quick = [("GB", "MB"), ("hour", "min"), ("dimensionless", "percent")]
    pairs = COMPAT
    for op in ("+", "-", "*", "/"):
        for ka, kb in itertools.product(KINDS, KINDS):
            for ua, ub in pairs:
                shapes = ["same"]
                if ka == "hourly" and kb == "hourly":
                    shapes = ["same", "shifted", "disjoint", "longer", "utc", "mixed_tz", "hole", "hole_utc", "hole_both", "hole_left"] \
                        if (ua, ub) == pairs[0] or tier == "thorough" else ["same", "shifted", "hole_utc"]
                for sh in shapes:
                    p.append(("binary", dict(op=op, ka=ka, ua=ua, kb=kb, ub=ub, shape=sh)))
            for ua, ub in INCOMPAT:
                if ka != "empty" and kb != "empty":
                    p.append(("binary", dict(op=op, ka=ka, ua=ua, kb=kb, ub=ub, shape="same")))
        for k in ("scalar", "hourly"):
            p.append(("binary", dict(op=op, ka=k, ua="GB", kb="zero", ub="GB", shape="same")))
            p.append(("binary", dict(op=op, ka="zero", ua="GB", kb=k, ub="GB", shape="same")))
    for hp in ("sum", "max", "abs", "neg", "ceil", "round", "copy", "shift"):
        p.append(("helper", dict(helper=hp, unit="GB")))
        p.append(("helper", dict(helper=hp, unit="dimensionless", n=2)))
    for hp in ("sum", "max", "abs", "neg", "ceil", "round", "copy", "shift", "add_self", "mul_scalar"):
        for un, un2 in (("kW", "W"), ("GB", "MB"), ("hour", "min")):
            p.append(("helper", dict(helper="after_to:" + hp, unit=un, unit2=un2, n=2)))
    p += [("helper", dict(helper="to", unit="GB", unit2="MB")), ("helper", dict(helper="to", unit="hour", unit2="s")),
          ("helper", dict(helper="compare_max", unit="GB", unit2="MB")), ("helper", dict(helper="compare_max", unit="W", unit2="W"))]
    for hp in ("ew_max", "ew_min"):
        for sh in ("same", "shifted", "longer", "hole"):
            p.append(("helper", dict(helper=hp, unit="GB", unit2="GB", shape=sh, n=2)))
        p.append(("helper", dict(helper=hp, unit="GB", unit2="MB", shape="same", n=2)))
    return p
