"""C10 — Results do not depend on the units inputs are expressed in."""
from fractions import Fraction as F

from harness import model as M, values as V
from harness.common import traffic_syms, gt_sets

PROPERTY = "C10"
LEVEL = "model_checking"

# default unit -> [(alternative unit, exact factor: magnitude_alt = magnitude_default * factor)]
ALT = {
    "kg/TB": [("g/GB", F(1)), ("kg/GB", F(1, 1000)), ("t/TB", F(1, 1000))],
    "W/TB": [("mW/GB", F(1)), ("kW/TB", F(1, 1000))],
    "year": [("day", F(1461, 4)), ("hour", F(8766))],
    "W": [("kW", F(1, 1000)), ("mW", F(1000))],
    "TB": [("GB", F(1000)), ("MB", F(10 ** 6))],
    "dimensionless": [("percent", F(100))],
    "kg": [("g", F(1000)), ("t", F(1, 1000))],
    "GB": [("MB", F(1000)), ("TB", F(1, 1000)), ("B", F(10 ** 9))],
    "g/kWh": [("kg/MWh", F(1)), ("kg/kWh", F(1, 1000)), ("g/J", F(1, 3600000))],
    "kB": [("MB", F(1, 1000)), ("B", F(1000))],
    "s": [("min", F(1, 60)), ("hour", F(1, 3600)), ("ms", F(1000))],
    "MB": [("GB", F(1, 1000)), ("kB", F(1000))],
    "min": [("s", F(60)), ("hour", F(1, 60)), ("day", F(1, 1440))],
    "hour/day": [("dimensionless", F(1, 24)), ("min/hour", F(5, 2))],
    "kWh/GB": [("Wh/MB", F(1)), ("J/B", F(36, 10000))],
    "cpu_core": [],
}
RANGES = {  # param -> (lo, hi, lo_strict, nice) in default unit
    "request_duration": (0, 7200, True, (1, 5000)),
    "user_time_spent": (0, 119, False, (1, 100)),
    "data_storage_duration": (0, F(3, 8766), True, (F(1, 8766), F(2, 8766))),
    "lifespan": (0, 100, True, (1, 10)),
    "fraction_of_usage_time": (0, 24, True, (1, 24)),
    "server_utilization_rate": (0, 1, True, (F(1, 2), 1)),
    "storage_capacity": (0, 1000, True, (F(1, 2), 4)),
    "ram": (0, 10 ** 5, True, (64, 512)),
    "compute": (0, 10 ** 4, True, (8, 64)),
    "base_ram_consumption": (0, 16, False, (0, 8)),
    "base_compute_consumption": (0, 2, False, (0, 2)),
    "data_stored": (0, 10 ** 6, False, (1, 1000)),
}
BOUNDS = {"hours_per_series": "N=2", "skeletons": "T1, T5 (quick: every input re-expressed at once); thorough: every "
          "(class, parameter, alternative unit) one at a time", "durations": "request_duration<=2h, step time<2h, "
          "storage duration<=3h so that ceil/floor stay in 0..3", "units": {k: [a for a, _ in v] for k, v in ALT.items()},
          "mixed units": "one job re-expressed while another job on the same server/network/storage keeps its unit, series over different hours (T4 long steps, T3, T7)",
          "builder classes": "10 inputs of the video streaming / web application / generative AI services, their jobs and the GPU server, one at a time",
          "edits": "T1: 8 inputs re-assigned on the computed system with the same magnitude in another unit"}
ASSUMPTIONS = ["alternative unit magnitudes are the exact rational multiples of the default-unit magnitudes",
               "cpu_core/gpu (custom units) have no alternative spelling and are not re-expressed",
               "data_stored >= 0 (sign split is C04's subject); ram*utilisation > base consumption is not assumed: "
               "rejecting paths must coincide in both models"]


def slots_of(spec):
    out = []
    for coll, kind in (("storages", "storage"), ("servers", "server"), ("jobs", "job"), ("steps", "step"),
                       ("devices", "device"), ("countries", "country"), ("networks", "network")):
        for name, o in spec.get(coll, {}).items():
            k = "gpu_server" if o.get("cls") == "GPUServer" else kind
            if o.get("cls") not in (None, "Server", "Job", "GPUServer"):
                continue
            for p, d, un in M.PARAMS[k]:
                out.append((f"{name}.{p}", p, d, un))
    return out


def h_units(ctx, skeleton, n, which, args=None, sym_mode="touched", values=None):
    """values: concrete overrides shared by both models (e.g. step durations above an hour, so that the series of jobs in
    different steps cover different hours)"""
    spec = M.SKELETONS[skeleton](n, **(args or {}))
    gt = gt_sets(spec)
    allslots = slots_of(spec)
    if which == "all":
        chosen = [(s, p, d, un, ALT[un][0]) for (s, p, d, un) in allslots if ALT.get(un)]
    elif isinstance(which, dict):
        colls = which["group"]
        names = [nm for c in colls for nm in spec.get(c, {})]
        chosen = [(s, p, d, un, ALT[un][which.get("alt", 0) % len(ALT[un])]) for (s, p, d, un) in allslots
                  if ALT.get(un) and s.split(".")[0] in names]
    else:
        chosen = [(s, p, d, un, ALT[un][which[1]]) for (s, p, d, un) in allslots if s == which[0]]
    sym = traffic_syms(spec)
    for (s, p, d, un, alt) in chosen:
        lo, hi, strict, nice = RANGES.get(p, (0, 10 ** 6, False, (max(d / 2, 0.01), d * 2 + 1)))
        sym[s] = dict(lo=lo, hi=hi, lo_strict=strict, nice=nice)
    envA = M.Env(ctx, symbolic=sym, values=dict(values or {}))
    values, units = {}, {}
    for (s, p, d, un, (alt_unit, factor)) in chosen:
        values[s] = envA.get(s, d) * factor
        units[s] = alt_unit
    envB = envA.child(values=values, units=units)
    outA = outB = None
    errA = errB = None
    try:
        A = M.build(spec, envA)
    except Exception as e:  # noqa
        errA = e
    try:
        B = M.build(spec, envB)
    except Exception as e:  # noqa
        errB = e
    if errA is not None or errB is not None:
        ctx.require(errA is not None and errB is not None and type(errA) is type(errB),
                    "both models are accepted or both rejected the same way", robust=True, detail=
                    f"default units: {type(errA).__name__ if errA else 'ok'}; re-expressed: "
                    f"{type(errB).__name__ if errB else 'ok'} {str(errB or errA)[:150]}")
        if errA is not None and errB is None:
            raise errA
        if errB is not None:
            raise errB
    V.observe_system(ctx, A, "A.")
    V.observe_system(ctx, B, "B.")
    V.compare_systems(ctx, B, A, "re-expressed = default units")


def h_units_edit(ctx, skeleton, n, slot, alt, args=None, scale=None):
    """on a computed system an input is re-assigned with the *same magnitude in another unit* (5 MB -> 5 GB): the live
    system equals the model built with that value from the start (the unit of a new value is never ignored).
    scale=k: the new value is instead k times the old physical value, *written in the other unit* (a value that never went
    through the constructor of its object, in a unit the constructor's defaults do not use)"""
    from efootprint.abstract_modeling_classes.source_objects import SourceValue
    spec = M.SKELETONS[skeleton](n, **(args or {}))
    (s_, p, d, un) = [x for x in slots_of(spec) if x[0] == slot][0]
    alt_unit, factor = ALT[un][alt]
    lo, hi, strict, nice = RANGES.get(p, (0, 10 ** 6, False, (max(d / 2, 0.01), d * 2 + 1)))
    sym = traffic_syms(spec)
    sym[slot] = dict(lo=lo, hi=hi, lo_strict=True, nice=nice)
    envA = M.Env(ctx, symbolic=sym)
    x = envA.get(slot, d)
    A = M.build(spec, envA)
    V.observe_system(ctx, A, "A.")
    name = slot.split(".")[0]
    errA = errB = None
    new = x if scale is None else x * scale * factor
    try:
        setattr(A[name], p, SourceValue(new * M.u(alt_unit)))
    except ValueError as e:
        errA = e
    try:
        B = M.build(spec, envA.child(values={slot: new}, units={slot: alt_unit}))
    except ValueError as e:
        errB = e
    if errA is not None or errB is not None:
        ctx.require(errA is not None and errB is not None, "re-assignment and fresh build are both accepted or both rejected",
                    robust=True, detail=f"live: {type(errA).__name__ if errA else 'ok'}; fresh: {type(errB).__name__ if errB else 'ok'}")
        raise errA or errB
    V.observe_system(ctx, B, "B.")
    V.compare_systems(ctx, A, B, f"{slot} re-assigned as the same number of {alt_unit}: live = fresh" if scale is None else
                      f"{slot} re-assigned as {scale} x its value written in {alt_unit}: live = fresh")


BUILDER_SLOTS = [  # kind, choice, slot, default, alternative unit, exact factor (magnitude_alt = magnitude_default * factor), range
    ("video", "1080p (1920 x 1080)", "svc.base_ram_consumption", 2, "MB", F(1000), (0, 64, (1, 8))),
    ("video", "720p (1280 x 720)", "svc.ram_buffer_per_user", 50, "GB", F(1, 1000), (0, 10 ** 4, (10, 100))),
    ("video", "4K (3840 x 2160)", "sjob.video_duration", 1800, "min", F(1, 60), (0, 7200, (60, 7000))),
    ("video", "480p (640 x 480)", "sjob.refresh_rate", 30, "1/min", F(60), (0, 240, (24, 60))),
    ("video", "1080p (1920 x 1080)", "svc.static_delivery_cpu_cost", 4, "cpu_core/(MB/s)", F(1, 1000), (0, 100, (1, 8))),
    ("video", "1080p (1920 x 1080)", "sjob.data_stored", 0, "kB", F(1000), (0, 10 ** 4, (1, 10))),
    ("web", ["php-symfony", "default"], "sjob.data_transferred", 2.25, "kB", F(1000), (0, 10 ** 4, (1, 10))),
    ("web", ["go-pgx", "default"], "sjob.data_stored", 100, "MB", F(1, 1000), (0, 10 ** 6, (1, 500))),
    ("genai", ["mistralai", "open-mistral-7b"], "srv.ram_per_gpu", 80, "MB/gpu", F(1000), (1, 1000, (40, 160))),
    ("genai", ["mistralai", "open-mistral-7b"], "svc.gpu_latency_beta", 0.0223, "ms", F(1000), (0, 1, (0.01, 0.05))),
]


def h_units_builders(ctx, index):
    """an input of a builder class (service, service job, GPU server) given in another unit"""
    from harness import c17
    kind, choice, slot, default, alt_unit, factor, (lo, hi, nice) = BUILDER_SLOTS[index]
    sym = c17.sym_for(kind)
    sym[slot] = dict(lo=lo, hi=hi, lo_strict=True, nice=nice)
    envA = M.Env(ctx, symbolic=sym)
    x = envA.get(slot, default)
    envB = envA.child(values={slot: x * factor}, units={slot: alt_unit})
    A, _ = c17.build_pair(ctx, envA, kind, choice, mixed=(kind != "genai"))
    if kind == "genai":
        ctx.assume(V.quantity_base(A["sjob"].request_duration.value)[1] <= 7200)
    B, _ = c17.build_pair(ctx, envB, kind, choice, mixed=(kind != "genai"))
    V.observe_system(ctx, A, "A.")
    V.observe_system(ctx, B, "B.")
    V.compare_systems(ctx, B, A, f"{kind}: {slot} given in {alt_unit} = default unit",
                      names={"srv", "st", "net", "up", "system", "sjob", "svc"})


HARNESSES = {"units": h_units, "units_edit": h_units_edit, "units_builders": h_units_builders}


def plan(tier, seed):
    groups = [["storages"], ["servers"], ["jobs", "steps"], ["devices", "countries", "networks"]]
    p = [("units", dict(skeleton="T1", n=2, which={"group": g})) for g in groups]
    p += [("units", dict(skeleton="T5", n=2, which={"group": g, "alt": 1})) for g in groups[:2]]
    if tier == "thorough":
        p += [("units", dict(skeleton="T5", n=2, which={"group": g, "alt": 1})) for g in groups[2:]]
    if tier == "thorough":
        p += [("units", dict(skeleton="T1", n=2, which="all"), dict(max_seconds=2400)),
              ("units", dict(skeleton="T5", n=2, which="all"), dict(max_seconds=2400))]
    # one job only re-expressed, in models where the jobs' hourly series cover different hours (sums of series in different
    # units over different indexes)
    long_steps = {"step1.user_time_spent": 70, "step2.user_time_spent": 65}
    for param in ("ram_needed", "data_transferred", "data_stored"):
        p.append(("units", dict(skeleton="T4", n=2, which=[f"jobB.{param}", 0], values=long_steps)))
    p.append(("units", dict(skeleton="T3", n=2, which=["job2.ram_needed", 0], values={"step.user_time_spent": 61})))
    # a step duration written in days (magnitude below 1 although the delay exceeds an hour), a job after that step
    p.append(("units", dict(skeleton="T4", n=2, which=["step1.user_time_spent", 2])))
    p.append(("units", dict(skeleton="T4", n=2, which=["step2.user_time_spent", 1])))
    p.append(("units", dict(skeleton="T7", n=2, which=["jobdel.data_stored", 0], args={"offset_hours": 1})))
    # same magnitude, other unit, assigned on the computed system
    for slot, alt in (("job.data_transferred", 0), ("job.ram_needed", 0), ("st.storage_capacity", 0), ("dev.lifespan", 0),
                      ("srv.ram", 1), ("fr.average_carbon_intensity", 1), ("dev.power", 0), ("job.data_stored", 1)):
        p.append(("units_edit", dict(skeleton="T1", n=2, slot=slot, alt=alt)))
    # another physical value written in another unit, assigned on the computed system: every input of T1 (the time-like
    # ones, which go through rounding steps, always; a seeded half of the others in quick)
    import random as _random
    r2 = _random.Random(seed + 7)
    t1_slots = [(s, un) for (s, pn, d, un) in slots_of(M.SKELETONS["T1"](3)) if ALT.get(un)]
    always = [x for x in t1_slots if x[0].split(".")[1] in ("data_storage_duration", "user_time_spent", "request_duration", "lifespan")]
    others = [x for x in t1_slots if x not in always]
    r2.shuffle(others)
    for s, un in always + (others if tier == "thorough" else others[:len(others) // 2]):
        for alt in range(len(ALT[un]) if s.endswith("data_storage_duration") else 1):
            p.append(("units_edit", dict(skeleton="T1", n=3, slot=s, alt=alt, scale=2)))
    for i in range(len(BUILDER_SLOTS)):
        p.append(("units_builders", dict(index=i)))
    # one at a time
    import random
    rnd = random.Random(seed)
    singles = []
    for sk in ("T1", "T5"):
        spec = M.SKELETONS[sk](2)
        for (s, pn, d, un) in slots_of(spec):
            for i, alt in enumerate(ALT.get(un, [])):
                singles.append(("units", dict(skeleton=sk, n=2, which=[s, i])))
    if tier == "quick":
        t1 = [x for x in singles if x[1]["skeleton"] == "T1"]
        # every parameter of T1 with its first alternative + a seeded sample of the rest
        first = [x for x in t1 if x[1]["which"][1] == 0]
        rest = [x for x in singles if x not in first]
        rnd.shuffle(rest)
        p += first + rest[:12]
    else:
        p += singles
        p += [("units", dict(skeleton="T3", n=2, which={"group": g})) for g in groups]
        p += [("units", dict(skeleton="T7", n=3, which={"group": g, "alt": 1})) for g in groups]
    return p
