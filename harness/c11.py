"""C11 — Local-time usage is converted to UTC without losing or inventing traffic."""
import bisect
import random
from datetime import datetime, timedelta

import pytz

from efootprint.abstract_modeling_classes.source_objects import SourceObject, SourceHourlyValues
from efootprint.builders.time_builders import create_hourly_usage_df_from_list
from harness import model as M, values as V
from harness.common import traffic_syms, gt_sets

PROPERTY = "C11"
LEVEL = "model_checking"
BOUNDS = {"values": "symbolic (one variable per local hour)", "zones": "quick: the 17 zones of constants/countries.py + "
          "Kolkata, Kathmandu, Lord_Howe, Apia, Chatham, New_York, Sao_Paulo, Tehran; thorough: every zone of "
          "pytz.all_timezones", "dates": "every UTC-offset transition of the zone in 2023-2027 (thorough 2000-2030), a "
          "6-hour series straddling it (starting 3 h before the local wall-clock time of the transition), plus plain days",
          "series_length": "6 hours (thorough also 30 h across a transition)"}
ASSUMPTIONS = ["zones and dates are concrete: 'for all zones and dates' is bounded by the enumeration above; the solver "
               "decides the value flow (which input lands in which UTC cell) for all values",
               "oracle: each local stamp is localised on its own from the zone's transition table (ambiguous -> the "
               "daylight-saving side, as the code requests; non-existent -> first valid instant after the gap); where "
               "an ambiguous stamp has two readings with the same daylight flag both placements are accepted"]
UTC = pytz.utc
HOUR = timedelta(hours=1)


def readings(tz, naive):
    """all UTC instants u (naive UTC datetimes) whose local wall-clock time in tz is `naive`, with their dst flag"""
    out = []
    offsets = set()
    if hasattr(tz, "_transition_info"):
        for (off, dst, name) in tz._transition_info:
            offsets.add((off, dst))
    else:
        offsets.add((tz.utcoffset(naive), tz.dst(naive) or timedelta(0)))
    for off, dst in offsets:
        ucand = naive - off
        back = UTC.localize(ucand).astimezone(tz)
        if back.replace(tzinfo=None) == naive and back.utcoffset() == off:
            out.append((ucand, bool(back.dst())))
    # distinct instants
    seen, res = set(), []
    for ucand, d in sorted(out):
        if ucand not in seen:
            seen.add(ucand)
            res.append((ucand, d))
    return res


def oracle_utc(tz, naive):
    """-> ("exact", [u]) | ("any", [u1, u2..]) | ("window", (lo, hi)) acceptable UTC instants (naive UTC datetimes)

    * one reading: that instant;
    * repeated (ambiguous) local hour: the daylight-saving side when exactly one reading is flagged so and it is the
      earlier instant, otherwise any of its readings (the statement only says repeated hours are merged, never dropped);
    * skipped (non-existent) local hour: any instant from T - (gap - 1 h) up to T + (position inside the gap) + 1 h —
      pandas moves such a stamp to the next whole hour, which for gaps that are not whole hours (Lord Howe, Chatham)
      or longer than an hour (Apia 2011-12-30) is not the transition instant itself."""
    r = readings(tz, naive)
    if len(r) == 1:
        return "exact", [r[0][0]]
    if len(r) >= 2:
        return "any", [u_ for u_, d in r]
    tt, ti = tz._utc_transition_times, tz._transition_info
    for i in range(1, len(tt)):
        old, new = ti[i - 1][0], ti[i][0]
        if tt[i] + old <= naive < tt[i] + new:
            inside = naive - (tt[i] + old)
            gap = new - old
            # multi-hour gaps (zone changes: Bahia_Banderas 2010, Casey, Troll ...): pandas merges the skipped hours into
            # the hours just *before* the transition as well; nothing is dropped
            back = max(gap - HOUR, timedelta(0))
            return "window", (tt[i] - back, tt[i] + inside + HOUR)
    raise AssertionError(f"no reading for {naive} in {tz}")


def check_placement(ctx, tz, start, n, xs, cells, lab):
    """every output cell = sum of the inputs assigned to it, for at least one admissible assignment of the
    repeated/skipped local hours"""
    import itertools
    from sx.core import and_, or_, sym_eq
    choices = []
    for i in range(n):
        kind, acc = oracle_utc(tz, start + i * HOUR)
        if kind == "exact":
            cand = list(acc)
        elif kind == "any":
            cand = [a for a in acc if a in cells]
        else:
            lo, hi = acc
            cand = [t for t in sorted(cells) if lo <= t <= hi]
        if not cand:
            ctx.require(False, f"{lab}: local hour {i} lands on an admissible UTC instant (not dropped)",
                        f"{kind} {acc} not among {sorted(map(str, cells))}")
            return
        choices.append(cand)
    multi = [i for i, c in enumerate(choices) if len(c) > 1]
    if len(multi) > 6:
        # a long run of skipped hours (a skipped calendar day inside a long series): the assignment search is not
        # attempted; every cell that no skipped hour can reach must still hold exactly its own local hours
        reach = set(t for i in multi for t in choices[i])
        exact = {}
        for i, c in enumerate(choices):
            if len(c) == 1:
                exact[c[0]] = exact.get(c[0], 0) + xs[i]
        ctx.require(set(cells) <= set(exact) | reach, f"{lab}: UTC stamps = local stamps shifted by the offset in force (nothing invented)",
                    f"{sorted(map(str, set(cells) - set(exact) - reach))[:4]}")
        for t in sorted(set(exact) - reach):
            ctx.require(t in cells, f"{lab}: local hour present at its UTC instant", str(t))
            if t in cells:
                ctx.eq(cells[t], exact[t], f"{lab}: each UTC hour holds exactly the local hours that map to it (merged, never dropped)")
        return
    combos = list(itertools.islice(itertools.product(*choices), 4096))
    good = []
    for combo in combos:
        exp = {}
        for i, t in enumerate(combo):
            exp[t] = exp.get(t, 0) + xs[i]
        if set(exp) == set(cells):
            good.append(exp)
    ctx.require(len(good) > 0, f"{lab}: UTC stamps = local stamps shifted by the offset in force (nothing invented)",
                f"{sorted(map(str, cells))}")
    if not good:
        return
    if len(good) == 1:
        for t in sorted(cells):
            ctx.eq(cells[t], good[0][t], f"{lab}: each UTC hour holds exactly the local hours that map to it (merged, never dropped)")
    else:
        ctx.holds(or_(*[and_(*[sym_eq(cells[t], g[t]) for t in sorted(cells)]) for g in good]),
                  f"{lab}: each UTC hour holds exactly the local hours that map to it (merged, never dropped)")


def cases_for_zone(zone, y0, y1, long_series=False):
    tz = pytz.timezone(zone)
    cases = [(datetime(2025, 1, 15, 0), 6), (datetime(2024, 7, 3, 21), 6)]
    if hasattr(tz, "_utc_transition_times"):
        tt, ti = tz._utc_transition_times, tz._transition_info
        for i in range(1, len(tt)):
            if not (y0 <= tt[i].year <= y1):
                continue
            local_wall = tt[i] + ti[i - 1][0]
            start = local_wall.replace(minute=0, second=0, microsecond=0) - 3 * HOUR
            cases.append((start, 6))
            if long_series:
                cases.append((start - 10 * HOUR, 30))
    return cases


def _bare_usage_pattern(tz, starts):
    from efootprint.core.country import Country
    from efootprint.core.hardware.device import Device
    from efootprint.core.hardware.network import Network
    from efootprint.core.usage.usage_journey import UsageJourney
    from efootprint.core.usage.usage_pattern import UsagePattern
    from efootprint.abstract_modeling_classes.source_objects import SourceValue
    from efootprint.constants.units import u
    c = Country("c", "C", SourceValue(100 * u.g / u.kWh), SourceObject(tz))
    return UsagePattern("up", UsageJourney("uj", []), [Device.from_defaults("d")], Network.from_defaults("n"), c, starts)


def h_zone(ctx, zone, y0, y1, long_series=False, max_cases=400):
    tz = pytz.timezone(zone)
    tzobj = SourceObject(tz)
    ncase = 0
    for ci, (start, n) in enumerate(cases_for_zone(zone, y0, y1, long_series)[:max_cases]):
        xs = [ctx.var(f"c{ci}.x[{i}]", lo=0, hi=1000, nice=(1, 60)) for i in range(n)]
        ehq = SourceHourlyValues(create_hourly_usage_df_from_list(xs, start_date=start))
        out = ehq.convert_to_utc(local_timezone=tzobj)
        # the same series through a usage pattern's own update rule must give the same UTC series
        up = _bare_usage_pattern(tz, SourceHourlyValues(create_hourly_usage_df_from_list(xs, start_date=start)))
        up.update_utc_hourly_usage_journey_starts()
        via_up = up.utc_hourly_usage_journey_starts
        ctx.require(list(via_up.value.index) == list(out.value.index), f"{zone} {start:%Y-%m-%d %H}h+{n}: usage pattern UTC stamps = convert_to_utc stamps",
                    f"{[str(t) for t in via_up.value.index][:3]} vs {[str(t) for t in out.value.index][:3]}")
        for a, b in zip(via_up.value["value"].values._data, out.value["value"].values._data):
            ctx.eq(a, b, f"{zone} {start:%Y-%m-%d %H}h+{n}: usage pattern UTC values = convert_to_utc values")
        idx = list(out.value.index)
        cells = dict(zip([V.utc_key(t).tz_localize(None).to_pydatetime() for t in idx], out.value["value"].values._data))
        lab = f"{zone} {start:%Y-%m-%d %H}h+{n}"
        ctx.require(all(str(t.tz) == "UTC" for t in idx), f"{lab}: result is expressed in UTC")
        ctx.require(all(idx[i] < idx[i + 1] for i in range(len(idx) - 1)), f"{lab}: strictly increasing time stamps, no duplicates",
                    str([str(t) for t in idx]))
        ctx.eq(sum(cells.values()), sum(xs), f"{lab}: total preserved")
        check_placement(ctx, tz, start, n, xs, cells, lab)
        ctx.observe(f"{ci}.first", list(cells.values())[0])
        ncase += 1
        ctx.count("zone_date_cases")
    ctx.require(ncase > 0, f"{zone}: at least one case")


def h_system(ctx, tz1, tz2, start_iso):
    start = datetime.fromisoformat(start_iso)
    spec = M.T3(3, tz2=tz2)
    spec["countries"]["fr"]["tz"] = tz1
    for p in spec["patterns"].values():
        p["starts"]["start"] = start
    env = M.Env(ctx, symbolic=traffic_syms(spec))
    objs = M.build(spec, env)
    V.observe_system(ctx, objs)
    total = {}
    for p, c in (("up", "fr"), ("up2", "my")):
        tz = pytz.timezone(spec["countries"][c]["tz"])
        up = objs[p]
        got = {V.utc_key(t).tz_localize(None).to_pydatetime(): v for t, v in
               zip(up.utc_hourly_usage_journey_starts.value.index, up.utc_hourly_usage_journey_starts.value["value"].values._data)}
        xs = [env.get(f"{p}.starts[{i}]", None) for i in range(3)]
        check_placement(ctx, tz, start, 3, xs, got, f"{p} ({tz.zone})")
        for t, v in got.items():
            total[t] = total.get(t, 0) + v
    # the job shared by both patterns sees both on one UTC line (first step, no delay)
    occ = {V.utc_key(t).tz_localize(None).to_pydatetime(): v for t, v in V.phys(objs["job"].hourly_occurrences_across_usage_patterns)[1].items()}
    ctx.require(set(occ) == set(total), "shared job: occurrences indexed by the union of both patterns' UTC stamps")
    for t in total:
        if t in occ:
            ctx.eq(occ[t], total[t], "shared job: patterns of two zones are combined on a common UTC line")


def h_countries(ctx, start_iso="2025-03-29T18:00:00"):
    """the ready-made countries (`efootprint.constants.countries.Countries`) carry a zone of that country (pytz's own
    country table is the oracle), and a usage pattern built with them is placed with that zone's offsets"""
    from efootprint.constants.countries import Countries
    from efootprint.core.country import Country
    by_name = {name.lower(): code for code, name in pytz.country_names.items()}
    alias = {"united kingdom": "gb", "britain (uk)": "gb"}
    start = datetime.fromisoformat(start_iso)
    n = 0
    for attr in sorted(dir(Countries)):
        gen = getattr(Countries, attr)
        if attr.startswith("_") or not callable(gen):
            continue
        try:
            c = gen()
        except Exception:
            continue
        if not isinstance(c, Country):
            continue
        n += 1
        code = by_name.get(c.name.lower()) or alias.get(c.name.lower())
        ctx.require(code is not None, f"Countries.{attr}: country '{c.name}' is known to the oracle table")
        if code is None:
            continue
        zones = pytz.country_timezones.get(code.upper(), [])
        ctx.require(c.timezone.value.zone in zones, f"Countries.{attr}: time zone is a zone of {c.name}",
                    f"{c.timezone.value.zone} not in {zones}")
        if len(zones) == 1:
            from efootprint.builders.time_builders import create_source_hourly_values_from_list
            hq = create_source_hourly_values_from_list([3, 1, 4], start_date=start)
            conv = hq.convert_to_utc(local_timezone=c.timezone)
            got = {V.utc_key(t).tz_localize(None).to_pydatetime(): v for t, v in zip(conv.value.index, conv.value["value"].values._data)}
            check_placement(ctx, pytz.timezone(zones[0]), start, 3, [3, 1, 4], got, f"Countries.{attr} ({zones[0]})")
    ctx.require(n >= 10, "the ready-made countries were enumerated", str(n))


def h_zone_edit(ctx, tz1, tz2, start_iso, n=4):
    """the country's time zone is edited on a computed system: the usage pattern's UTC series is placed with the new
    zone's offsets (also when the series spans a transition of the old or the new zone)"""
    start = datetime.fromisoformat(start_iso)
    spec = M.T1(n, tz=tz1, start=start)
    env = M.Env(ctx, symbolic=traffic_syms(spec))
    objs = M.build(spec, env)
    V.observe_system(ctx, objs)
    objs["fr"].timezone = SourceObject(pytz.timezone(tz2))
    up = objs["up"]
    got = {V.utc_key(t).tz_localize(None).to_pydatetime(): v for t, v in
           zip(up.utc_hourly_usage_journey_starts.value.index, up.utc_hourly_usage_journey_starts.value["value"].values._data)}
    xs = [env.get(f"up.starts[{i}]", None) for i in range(n)]
    check_placement(ctx, pytz.timezone(tz2), start, n, xs, got, f"after editing the zone {tz1} -> {tz2}")
    occ = {V.utc_key(t).tz_localize(None).to_pydatetime(): v for t, v in V.phys(objs["job"].hourly_occurrences_across_usage_patterns)[1].items()}
    ctx.require(set(occ) == set(got), f"after editing the zone {tz1} -> {tz2}: the job's occurrences follow the new UTC stamps")


HARNESSES = {"zone": h_zone, "system": h_system, "countries": h_countries, "zone_edit": h_zone_edit}
QUICK_ZONES = ["Europe/Paris", "Europe/Berlin", "Europe/Helsinki", "Europe/Vienna", "Europe/Warsaw", "Europe/Oslo",
               "Europe/Budapest", "Europe/London", "Europe/Brussels", "Europe/Rome", "Europe/Bucharest",
               "Asia/Kuala_Lumpur", "Africa/Casablanca", "Africa/Tunis", "Africa/Algiers", "Africa/Dakar",
               "Asia/Kolkata", "Asia/Kathmandu", "Australia/Lord_Howe", "Pacific/Apia", "Pacific/Chatham",
               "America/New_York", "America/Sao_Paulo", "Asia/Tehran", "UTC", "Asia/Calcutta", "Australia/NSW", "America/Buenos_Aires", "Etc/GMT-3", "EST5EDT"]


def plan(tier, seed):
    p = []
    if tier == "quick":
        for z in QUICK_ZONES:
            p.append(("zone", dict(zone=z, y0=2023, y1=2027)))
        p.append(("zone", dict(zone="Pacific/Apia", y0=2011, y1=2012)))
    else:
        for z in pytz.all_timezones:
            p.append(("zone", dict(zone=z, y0=2000, y1=2030, long_series=z in QUICK_ZONES), dict(max_seconds=1500)))
    for tz1, tz2, st in (("Europe/Paris", "Asia/Kuala_Lumpur", "2025-03-30T00:00:00"),
                         ("America/New_York", "Asia/Kolkata", "2025-11-02T00:00:00"),
                         ("Europe/London", "Australia/Lord_Howe", "2025-10-05T00:00:00")):
        p.append(("system", dict(tz1=tz1, tz2=tz2, start_iso=st)))
    for tz1, tz2, st in (("Europe/Paris", "Asia/Kolkata", "2025-03-30T00:00:00"), ("America/New_York", "Europe/London", "2025-03-09T00:00:00"),
                         ("Asia/Tokyo", "Europe/Paris", "2025-10-26T00:00:00"), ("Europe/Paris", "America/Sao_Paulo", "2025-06-10T00:00:00")):
        p.append(("zone_edit", dict(tz1=tz1, tz2=tz2, start_iso=st)))
    p.append(("countries", dict(start_iso="2025-03-29T18:00:00")))
    p.append(("countries", dict(start_iso="2025-10-25T20:00:00")))
    return p
