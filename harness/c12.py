"""C12 — Footprints respond to each driver in the documented proportion."""
from harness import model as M, values as V
from harness.common import traffic_syms, gt_sets
from sx.core import or_

PROPERTY = "C12"
LEVEL = "model_checking"
BOUNDS = {"hours_per_series": "N=2", "skeletons": "T1,T1d(two devices in one pattern, also named alike),T2,T2c(two countries on one network),T3,T5(serverless)", "k": "symbolic, k>0",
          "drivers": "one at a time, one object at a time; driver base value and traffic symbolic; fresh builds with d and k*d, "
                     "and (T1, T5) the same change made by assignment on the computed system"}
ASSUMPTIONS = ["k > 0; driver base value > 0; for partially driven aggregates (one country of two, one device of two, "
               "one job of several) the obligation is the affine form f(k d) - f(d) = (k-1)(f(d) - f(0))",
               "inverse drivers (lifespan, fraction of usage time) are only checked on aggregates they fully drive"]

FOOT = ("energy_footprint", "instances_fabrication_footprint")


def _components(gt):
    return gt["servers"] + gt["storages"] + gt["networks"] + gt["patterns"]


def _expect(spec, gt, kind, target):
    """{(object, footprint): 'prop'|'inv'|'affine'|'same'|None}"""
    exp = {(o, f): "same" for o in _components(gt) for f in FOOT}
    pats_of_net = {n: [p for p in gt["patterns"] if spec["patterns"][p]["network"] == n] for n in gt["networks"]}
    if kind in ("server.power_usage_effectiveness", "server.average_carbon_intensity"):
        exp[(target, "energy_footprint")] = "prop"
        exp[(spec["servers"][target]["storage"], "energy_footprint")] = "prop"
    elif kind == "network.bandwidth_energy_intensity":
        exp[(target, "energy_footprint")] = "prop"
    elif kind == "job.data_transferred":
        for n, pats in pats_of_net.items():
            jobs = set(j for p in pats for j in gt["jobs_of_pattern"][p])
            if target in jobs:
                exp[(n, "energy_footprint")] = "prop" if jobs == {target} else "affine"
    elif kind == "country.average_carbon_intensity":
        for n, pats in pats_of_net.items():
            cs = set(spec["patterns"][p]["country"] for p in pats)
            if target in cs:
                exp[(n, "energy_footprint")] = "prop" if cs == {target} else "affine"
        for p in gt["patterns"]:
            if spec["patterns"][p]["country"] == target:
                exp[(p, "energy_footprint")] = "prop"
    elif kind in ("device.power", "device.carbon_footprint_fabrication", "device.lifespan",
                  "device.fraction_of_usage_time"):
        foot = "energy_footprint" if kind == "device.power" else "instances_fabrication_footprint"
        for p in gt["patterns"]:
            devs = spec["patterns"][p]["devices"]
            if target in devs:
                full = set(devs) == {target}
                if kind in ("device.lifespan", "device.fraction_of_usage_time"):
                    exp[(p, foot)] = "inv" if full else None
                else:
                    exp[(p, foot)] = "prop" if full else "affine"
    elif kind in ("server.carbon_footprint_fabrication", "storage.carbon_footprint_fabrication_per_storage_capacity"):
        exp[(target, "instances_fabrication_footprint")] = "prop"
    elif kind in ("server.lifespan", "storage.lifespan"):
        exp[(target, "instances_fabrication_footprint")] = "inv"
    else:
        raise ValueError(kind)
    return exp


def _driving_patterns(spec, gt, kind, target, o):
    """usage patterns through which `target` contributes to the footprint of aggregate `o`"""
    if kind == "country.average_carbon_intensity":
        return [p for p in gt["patterns"] if spec["patterns"][p]["country"] == target and spec["patterns"][p]["network"] == o]
    if kind == "job.data_transferred":
        return [p for p in gt["patterns"] if spec["patterns"][p]["network"] == o and target in gt["jobs_of_pattern"][p]]
    return [o]     # device drivers: the aggregate is the usage pattern itself


DEFAULTS = {p: d for kind, lst in M.PARAMS.items() for p, d, un in lst}
NICE = {"power_usage_effectiveness": (1, 2), "average_carbon_intensity": (20, 500),
        "bandwidth_energy_intensity": (0.01, 1), "data_transferred": (10, 5000), "power": (1, 400),
        "carbon_footprint_fabrication": (10, 900), "lifespan": (1, 10), "fraction_of_usage_time": (1, 24),
        "carbon_footprint_fabrication_per_storage_capacity": (10, 300)}


def h_driver(ctx, skeleton, kind, target, n=2, args=None, values=None):
    """values: concrete overrides (e.g. a request lasting more than an hour, whose data is spread over several hours)"""
    spec = M.SKELETONS[skeleton](n, **(args or {}))
    gt = gt_sets(spec)
    param = kind.split(".", 1)[1]
    slot = f"{target}.{param}"
    sym = traffic_syms(spec)
    hi = 24 if param == "fraction_of_usage_time" else 10 ** 6
    sym[slot] = dict(lo=0, lo_strict=True, hi=hi, nice=NICE[param])
    envA = M.Env(ctx, symbolic=sym, values=dict(values or {}))
    k = envA.fresh("k", lo=0, lo_strict=True, hi=1000, nice=(2, 5))
    d = envA.get(slot, None)
    if param == "fraction_of_usage_time":
        ctx.assume(k * d <= 24)
    A = M.build(spec, envA)
    B = M.build(spec, envA.child(values={slot: k * d}))
    exp = _expect(spec, gt, kind, target)
    A0 = None
    if any(v == "affine" for v in exp.values()):
        A0 = M.build(spec, envA.child(values={slot: 0}))
    V.observe_system(ctx, A, "A.")
    V.observe_system(ctx, B, "B.")
    n_driven = 0
    for (o, f), e in exp.items():
        if e is None:
            continue
        da, ca = V.phys(getattr(A[o], f, None))
        db, cb = V.phys(getattr(B[o], f, None))
        keys = sorted(set(ca) | set(cb))
        lab = f"{kind} x k: {o}.{f}"
        if e != "same":
            n_driven += 1
            ctx.require(len(keys) > 0, f"{lab} driven footprint is not empty")
        for t in keys:
            a, b = ca.get(t, 0), cb.get(t, 0)
            if e == "same":
                ctx.eq(b, a, f"{lab} unchanged")
            elif e == "prop":
                ctx.eq(b, k * a, f"{lab} multiplied by k")
            elif e == "inv":
                ctx.eq(b * k, a, f"{lab} divided by k")
            elif e == "affine":
                a0 = V.phys(getattr(A0[o], f, None))[1].get(t, 0)
                ctx.eq(b - a, (k - 1) * (a - a0), f"{lab} affine in the driver")
    ctx.require(n_driven > 0, f"{kind}: at least one footprint is driven")
    # a partially driven aggregate really responds to the driver: the driven part is non-zero as soon as the usage
    # patterns that bring it in have any traffic (an affine law with slope 0 would satisfy the obligation above)
    for (o, f), e in exp.items():
        if e != "affine":
            continue
        pats = _driving_patterns(spec, gt, kind, target, o)
        traffic = sum(envA.get(sl, None) for sl in sym if any(sl.startswith(pn + ".starts[") for pn in pats))
        ca = V.phys(getattr(A[o], f, None))[1]
        c0 = V.phys(getattr(A0[o], f, None))[1]
        part = sum(ca.get(t, 0) - c0.get(t, 0) for t in sorted(set(ca) | set(c0)))
        ctx.holds(or_(part > 0, traffic <= 0), f"{kind}: {o}.{f} has a non-zero part driven by {target} whenever its usage patterns have traffic")


def h_traffic(ctx, skeleton, n=2, args=None):
    spec = M.SKELETONS[skeleton](n, **(args or {}))
    gt = gt_sets(spec)
    sym = traffic_syms(spec)
    envA = M.Env(ctx, symbolic=sym)
    k = envA.fresh("k", lo=0, lo_strict=True, hi=1000, nice=(2, 5))
    scaled = {s: k * envA.get(s, None) for s in sym}
    A = M.build(spec, envA)
    B = M.build(spec, envA.child(values=scaled))
    V.observe_system(ctx, A, "A.")
    V.observe_system(ctx, B, "B.")
    targets = []
    for j in gt["jobs"]:
        for attr, v in V.calc_attr_items(A[j]):
            if not attr.endswith("#keys"):
                targets.append((j, attr))
    for o in gt["networks"]:
        targets.append((o, "energy_footprint"))
    for p in gt["patterns"]:
        targets += [(p, "nb_usage_journeys_in_parallel"), (p, "devices_energy"), (p, "energy_footprint"),
                    (p, "instances_fabrication_footprint")]
    for s in gt["servers"]:
        if spec["servers"][s].get("server_type", "autoscaling") == "serverless":
            targets += [(s, "hour_by_hour_ram_need"), (s, "hour_by_hour_compute_need"), (s, "raw_nb_of_instances"),
                        (s, "nb_of_instances"), (s, "instances_energy"), (s, "energy_footprint"),
                        (s, "instances_fabrication_footprint")]
        else:
            targets += [(s, "hour_by_hour_ram_need"), (s, "hour_by_hour_compute_need"), (s, "raw_nb_of_instances")]
    for o, attr in targets:
        ia, ib = dict(V.calc_attr_items(A[o])), dict(V.calc_attr_items(B[o]))
        ca, cb = V.phys(ia[attr])[1], V.phys(ib[attr])[1]
        for t in sorted(set(ca) | set(cb)):
            ctx.eq(cb.get(t, 0), k * ca.get(t, 0), f"traffic x k: {o}.{attr} multiplied by k")


def h_driver_edit(ctx, skeleton, kind, target, n=2, args=None):
    """the driver is multiplied by k *on the live system* (plain attribute assignment): the footprints it drives are
    multiplied (divided) by k, the others keep their value"""
    from efootprint.abstract_modeling_classes.source_objects import SourceValue
    from efootprint.constants.units import u
    from harness import edits as E
    spec = M.SKELETONS[skeleton](n, **(args or {}))
    gt = gt_sets(spec)
    param = kind.split(".", 1)[1]
    slot = f"{target}.{param}"
    sym = traffic_syms(spec)
    hi = 24 if param == "fraction_of_usage_time" else 10 ** 6
    sym[slot] = dict(lo=0, lo_strict=True, hi=hi, nice=NICE[param])
    env = M.Env(ctx, symbolic=sym)
    k = env.fresh("k", lo=0, lo_strict=True, hi=1000, nice=(2, 5))
    d = env.get(slot, None)
    ctx.assume(k != 1)
    if param == "fraction_of_usage_time":
        ctx.assume(k * d <= 24)
    A = M.build(spec, env)
    V.observe_system(ctx, A, "A.")
    exp = _expect(spec, gt, kind, target)
    before = {(o, f): V.phys(getattr(A[o], f, None))[1] for (o, f) in exp}
    _, un = E.param_info(spec, target, param)
    setattr(A[target], param, SourceValue(k * d * u(un)))
    n_driven = 0
    for (o, f), e in exp.items():
        if e in (None, "affine"):
            continue
        ca, cb = before[(o, f)], V.phys(getattr(A[o], f, None))[1]
        lab = f"{kind} x k on the live system: {o}.{f}"
        n_driven += e != "same"
        for t in sorted(set(ca) | set(cb)):
            a, b = ca.get(t, 0), cb.get(t, 0)
            if e == "same":
                ctx.eq(b, a, f"{lab} unchanged")
            elif e == "prop":
                ctx.eq(b, k * a, f"{lab} multiplied by k")
            else:
                ctx.eq(b * k, a, f"{lab} divided by k")
    ctx.require(n_driven > 0, f"{kind}: at least one footprint is fully driven")


HARNESSES = {"driver": h_driver, "traffic": h_traffic, "driver_edit": h_driver_edit}

ROWS = {
    "T1": [("server.power_usage_effectiveness", "srv"), ("server.average_carbon_intensity", "srv"),
           ("network.bandwidth_energy_intensity", "net"), ("job.data_transferred", "job"),
           ("country.average_carbon_intensity", "fr"), ("device.power", "dev"),
           ("device.carbon_footprint_fabrication", "dev"), ("device.lifespan", "dev"),
           ("device.fraction_of_usage_time", "dev"), ("server.carbon_footprint_fabrication", "srv"),
           ("server.lifespan", "srv"), ("storage.carbon_footprint_fabrication_per_storage_capacity", "st"),
           ("storage.lifespan", "st")],
    "T3": [("server.power_usage_effectiveness", "srv"), ("job.data_transferred", "job"),
           ("job.data_transferred", "job2"), ("country.average_carbon_intensity", "fr"),
           ("country.average_carbon_intensity", "my"), ("network.bandwidth_energy_intensity", "net2"),
           ("device.power", "dev2"), ("device.lifespan", "dev")],
    "T2": [("country.average_carbon_intensity", "fr"), ("device.power", "dev"), ("job.data_transferred", "job"),
           ("device.carbon_footprint_fabrication", "dev")],
    "T2c": [("country.average_carbon_intensity", "fr"), ("country.average_carbon_intensity", "de"),
            ("network.bandwidth_energy_intensity", "net"), ("job.data_transferred", "job"), ("device.power", "dev2")],
    "T5": [("server.power_usage_effectiveness", "srv"), ("server.power_usage_effectiveness", "srv2"),
           ("server.average_carbon_intensity", "srv2"), ("server.lifespan", "srv2"),
           ("storage.lifespan", "st2"), ("server.carbon_footprint_fabrication", "srv")],
}


def _expect_has_full(sk, kind, target):
    spec = M.SKELETONS[sk](2)
    return any(e in ("prop", "inv") for e in _expect(spec, gt_sets(spec), kind, target).values())


def plan(tier, seed):
    p = []
    for sk, rows in ROWS.items():
        for kind, target in rows:
            if tier == "quick" and sk in ("T2",) :
                continue
            p.append(("driver", dict(skeleton=sk, kind=kind, target=target, n=2)))
    for sk in ("T1", "T3", "T5", "T2c", "TX"):
        p.append(("traffic", dict(skeleton=sk, n=2)))
    # two zones with a time change in one of them (series with the same first hour and length, different hours)
    p.append(("traffic", dict(skeleton="TH", n=5)))
    # two distinct countries carrying the same name and short name on one network
    for kind, target in (("country.average_carbon_intensity", "fr"), ("country.average_carbon_intensity", "de"), ("network.bandwidth_energy_intensity", "net")):
        p.append(("driver", dict(skeleton="T2c", kind=kind, target=target, n=2, args={"same_names": True})))
    p.append(("driver_edit", dict(skeleton="T2c", kind="country.average_carbon_intensity", target="de", n=2, args={"same_names": True})))
    for kind, target in (("country.average_carbon_intensity", "de"), ("network.bandwidth_energy_intensity", "net"), ("job.data_transferred", "job")):
        p.append(("driver", dict(skeleton="TH", kind=kind, target=target, n=5)))
    # a usage pattern with two devices (partially driven device footprints), also with two devices named alike
    for same in (False, True):
        for kind, target in (("device.power", "dev"), ("device.power", "dev2"), ("device.carbon_footprint_fabrication", "dev"),
                             ("device.carbon_footprint_fabrication", "dev2")):
            if same or tier == "thorough" or target == "dev2":
                p.append(("driver", dict(skeleton="T1d", kind=kind, target=target, n=2, args={"same_names": same})))
    # requests lasting more than an hour (data spread over several hours), steps longer than an hour
    long_job = {"job.request_duration": 5400, "job.data_stored": 730}
    for kind, target in (("job.data_transferred", "job"), ("network.bandwidth_energy_intensity", "net"), ("country.average_carbon_intensity", "fr")):
        p.append(("driver", dict(skeleton="T1", kind=kind, target=target, n=3, values=long_job)))
    p.append(("driver", dict(skeleton="T4", kind="job.data_transferred", target="jobB", n=2, values={"step1.user_time_spent": 70, "jobB.request_duration": 7300})))
    # drivers changed in place on a computed system
    for sk, rows in (("T1", ROWS["T1"]), ("T5", ROWS["T5"])):
        for kind, target in rows:
            if _expect_has_full(sk, kind, target):
                p.append(("driver_edit", dict(skeleton=sk, kind=kind, target=target, n=2)))
    if tier == "thorough":
        for sk, rows in ROWS.items():
            for kind, target in rows:
                p.append(("driver", dict(skeleton=sk, kind=kind, target=target, n=3)))
        for sk in ("T2", "T4", "T7"):
            p.append(("traffic", dict(skeleton=sk, n=3)))
    return p
