"""C13 — Saving a system to JSON and loading it back loses nothing."""
import copy

from efootprint.abstract_modeling_classes.contextual_modeling_object_attribute import ContextualModelingObjectAttribute
from efootprint.abstract_modeling_classes.explainable_object_base_class import ExplainableObject
from efootprint.abstract_modeling_classes.explainable_object_dict import ExplainableObjectDict
from efootprint.abstract_modeling_classes.explainable_objects import (
    EmptyExplainableObject, ExplainableHourlyQuantities, ExplainableQuantity)
from efootprint.abstract_modeling_classes.list_linked_to_modeling_obj import ListLinkedToModelingObj
from efootprint.abstract_modeling_classes.modeling_object import ModelingObject
from efootprint.api_utils.json_to_system import json_to_system
from efootprint.api_utils.system_to_json import system_to_json
from harness import model as M, values as V, edits as E
from harness.common import traffic_syms, gt_sets, sym_slots
from harness.c01 import resolve, collect_slots, num, compare_live_fresh
from sx.core import Sym

PROPERTY = "C13"
LEVEL = "model_checking"
BOUNDS = {"hours_per_series": "N=2", "skeletons": "T1, T3, T5 (fixed count), T9 (spare objects outside the system are not "
          "exported)", "hourly inputs": "k/1000 with k a symbolic integer (so the documented 3-decimal rounding is the "
          "identity)", "variants": "with/without calculated attributes, after a depth-1 edit, edit on the loaded system, "
          "file of the previous major version (Device written as Hardware, version 9.x)"}
ASSUMPTIONS = ["objects outside the system do not point into it (no spare job attached to a server of the system)",
               "the JSON *text* layer (json.dumps/loads, float repr) is outside the encoding: the round trip is checked at "
               "the dict level", "float(x) inside explainable_objects.to_json is the identity on proxies (stub)"]


def _sym(spec):
    sym = {}
    for pname, p in spec["patterns"].items():
        for i in range(p["starts"]["n"]):
            sym[f"{pname}.k[{i}]"] = dict(lo=0, hi=10 ** 6, integer=True)
    sym.update(sym_slots(spec, [("jobs", "data_transferred", 0, 10 ** 6, (1, 900)), ("jobs", "data_stored", 0, 10 ** 6, (1, 900)),
                                ("servers", "power_usage_effectiveness", 1, 3, (1, 2)),
                                ("storages", "base_storage_need", 0, 100, (0.1, 1)),
                                ("devices", "power", 0, 1000, (1, 100)),
                                ("countries", "average_carbon_intensity", 0, 1000, (10, 500))]))
    return sym


def _env(ctx, spec):
    sym = _sym(spec)
    env = M.Env(ctx, symbolic=sym)
    vals = {}
    for pname, p in spec["patterns"].items():
        for i in range(p["starts"]["n"]):
            k = env.get(f"{pname}.k[{i}]", None)
            vals[f"{pname}.starts[{i}]"] = k / 1000
    return env.child(values=vals)


def input_items(o):
    out = {}
    for attr, v in o.__dict__.items():
        if attr in o.calculated_attributes or attr in o.attributes_that_shouldnt_trigger_update_logic:
            continue
        out[attr] = v
    return out


def compare_inputs(ctx, orig_objs, loaded_flat, label):
    """same objects, identifiers, links, labels, sources and input values"""
    for name, o in orig_objs.items():
        lo = loaded_flat.get(o.id)
        ctx.require(lo is not None, f"{label}: object {name} is present with the same identifier")
        if lo is None:
            continue
        ctx.require(type(lo) is type(o) and lo.name == o.name, f"{label}: {name} has the same class and name")
        ia, ib = input_items(o), input_items(lo)
        ctx.require(set(ia) == set(ib), f"{label}: {name} has the same input attributes", str(sorted(set(ia) ^ set(ib))))
        for attr, va in ia.items():
            vb = ib.get(attr)
            w = f"{label}: {name}.{attr}"
            if isinstance(va, ContextualModelingObjectAttribute):
                ctx.require(isinstance(vb, ContextualModelingObjectAttribute) and vb.id == va.id, f"{w} link target")
            elif isinstance(va, ListLinkedToModelingObj):
                ctx.require(isinstance(vb, ListLinkedToModelingObj) and [e.id for e in vb] == [e.id for e in va], f"{w} list content",
                            f"{[e.id for e in va]} vs {[e.id for e in vb] if vb is not None else None}")
            elif isinstance(va, ExplainableObject):
                ctx.require(isinstance(vb, ExplainableObject), f"{w} is an explainable value")
                if not isinstance(vb, ExplainableObject):
                    continue
                ctx.require(va.label == vb.label, f"{w} label", f"{va.label!r} vs {vb.label!r}")
                sa = (va.source.name, va.source.link) if va.source is not None else None
                sb = (vb.source.name, vb.source.link) if vb.source is not None else None
                ctx.require(sa == sb, f"{w} source", f"{sa} vs {sb}")
                ctx.require(type(va).__mro__[1] is type(vb).__mro__[1] or type(va) is type(vb) or
                            isinstance(va, type(vb)), f"{w} kind", f"{type(va).__name__} vs {type(vb).__name__}")
                V.compare_phys(ctx, vb, va, f"{w} value", missing_is_zero=False)
            elif isinstance(va, (str, int, float)) or va is None:
                ctx.require(va == vb, f"{w}", f"{va!r} vs {vb!r}")


def compare_json(ctx, a, b, label, path=""):
    if isinstance(a, dict) and isinstance(b, dict):
        ctx.require(set(a) == set(b), f"{label}: same keys at {path or '/'}", str(sorted(set(a) ^ set(b)))[:200])
        for k in a:
            if k in b:
                compare_json(ctx, a[k], b[k], label, f"{path}/{k}")
    elif isinstance(a, list) and isinstance(b, list):
        ctx.require(len(a) == len(b), f"{label}: same length at {path}")
        for i, (x, y) in enumerate(zip(a, b)):
            compare_json(ctx, x, y, label, f"{path}[{i}]")
    elif isinstance(a, Sym) or isinstance(b, Sym) or (isinstance(a, float) and isinstance(b, float)):
        ctx.eq(b, a, f"{label}: number at {path.split('/id-')[0]}")
    else:
        ctx.require(a == b, f"{label}: value at {path}", f"{a!r} vs {b!r}")


def roundtrip_core(ctx, in_system, save_calc, old_version=False):
    """export, load, compare objects / inputs / recomputed results, export again; -> loaded objects by name (or None)"""
    system = in_system["system"]
    js = system_to_json(system, save_calculated_attributes=save_calc)
    js_in = copy.deepcopy(js)
    if old_version:
        js_in["efootprint_version"] = "9.1.4"
        js_in["Hardware"] = js_in.pop("Device")
    try:
        class_obj_dict, flat = json_to_system(js_in)
    except Exception as e:  # noqa
        ctx.require(False, "the exported file can be loaded back", f"{type(e).__name__}: {str(e)[:160]}")
        return None
    lab = "loaded"
    ctx.require(set(flat.keys()) == {o.id for o in in_system.values()}, f"{lab}: exactly the objects of the system are restored",
                str(sorted(set(flat.keys()) ^ {o.id for o in in_system.values()}))[:200])
    compare_inputs(ctx, in_system, flat, lab)
    loaded = {name: flat[o.id] for name, o in in_system.items() if o.id in flat}
    V.observe_system(ctx, loaded, "loaded.")
    V.compare_systems(ctx, loaded, in_system, "recomputed results of the loaded system = original")
    if not old_version:
        try:
            js2 = system_to_json(loaded["system"], save_calculated_attributes=save_calc)
        except Exception as e:  # noqa
            ctx.require(False, "the loaded system can be exported again", f"{type(e).__name__}: {str(e)[:160]}")
            return None
        if save_calc:
            # calculated values carry fresh explanation ids only through object ids, which are preserved
            pass
        compare_json(ctx, js, js2, "second export = first export")
    return loaded


def h_roundtrip(ctx, skeleton, save_calc, n=2, args=None, edit=None, post_edit=None, old_version=False, custom_sources=False,
                start=None):
    spec = M.SKELETONS[skeleton](n, **(args or {}))
    if start:
        # start of the modelled period (year ends, leap days: where calendar-dependent formatting goes wrong)
        from datetime import datetime
        for po in spec["patterns"].values():
            po["starts"]["start"] = datetime.fromisoformat(start)
    # spare jobs (outside the system) must not hang on a server of the system: they would not be exported, yet they are
    # ancestors of that server's load in the original graph (a model with dangling reverse links is outside the claim)
    used = set(gt_sets(spec)["jobs"])
    for j, jo in spec["jobs"].items():
        if j not in used and "srv_alt" in spec["servers"]:
            jo["server"] = "srv_alt"
    env = _env(ctx, spec)
    if edit:
        env.symbolic.update(collect_slots(spec, [edit]))
    if post_edit:
        env.symbolic.update(collect_slots(spec, [post_edit]))
    if custom_sources:
        from efootprint.abstract_modeling_classes.explainable_object_base_class import Source
        # two sources sharing a name with different links, a source without link, a user-defined source
        env.sources.update({"srv.power": Source("Vendor datasheet", "https://vendor.example/2022"),
                            "dev.power": Source("Vendor datasheet", "https://vendor.example/2024"),
                            "job.data_transferred": Source("measured in production", None),
                            "st.storage_capacity": Source("user data", "https://intranet.example/storage"),
                            "net.bandwidth_energy_intensity": Source("user data", None)})
    objs = M.build(spec, env)
    if edit:
        e = resolve(ctx, env, env, spec, edit, 0)
        spec, env = E.apply(objs, spec, env, e)
    V.observe_system(ctx, objs, "orig.")
    system = objs["system"]
    gt = gt_sets(spec)
    in_system = {k: objs[k] for k in (gt["steps"] + gt["journeys"] + gt["devices"] + gt["countries"] + gt["patterns"]
                                      + gt["jobs"] + gt["networks"] + gt["servers"] + gt["storages"] + ["system"])}
    loaded = roundtrip_core(ctx, in_system, save_calc, old_version)
    if loaded is None:
        return
    if post_edit:
        e = resolve(ctx, env, env, spec, post_edit, 1)
        spec2, env2 = E.apply(loaded, spec, env, e)
        compare_live_fresh(ctx, loaded, spec2, env2, "edit on the loaded system = fresh build")


def h_roundtrip_builders(ctx, kind, choice, save_calc, edit_slot=None):
    """systems made with the service builders (video streaming, web application, generative AI on a GPU server) or a
    cloud-instance server"""
    from harness import c17
    from efootprint.abstract_modeling_classes.source_objects import SourceValue, SourceObject
    from efootprint.constants.units import u
    sym = {k: v for k, v in c17.sym_for(kind if kind != "cloud" else "web").items() if not k.startswith("up.starts")} if kind != "cloud" else {}
    sym.update({f"up.k[{i}]": dict(lo=0, hi=10 ** 6, integer=True, nice=(1, 40000)) for i in range(2)})
    env = M.Env(ctx, symbolic=sym)
    env = env.child(values={f"up.starts[{i}]": env.get(f"up.k[{i}]", None) / 1000 for i in range(2)})
    if kind == "cloud":
        from efootprint.builders.hardware.boavizta_cloud_server import BoaviztaCloudServer
        from efootprint.core.hardware.storage import Storage
        from efootprint.core.hardware.server_base import ServerTypes
        from efootprint.core.usage.job import Job
        from efootprint.core.system import System
        st = Storage.from_defaults("st")
        srv = BoaviztaCloudServer.from_defaults("srv", provider=SourceObject(choice[0]), instance_type=SourceObject(choice[1]),
                                                server_type=ServerTypes.autoscaling(), storage=st)
        job = Job("pjob", server=srv, **{p: c17.sv(env, f"pjob.{p}", d, un) for p, d, un in M.PARAMS["job"]})
        A = dict(srv=srv, st=st, pjob=job, **c17.usage_side(env, [job]))
        A["system"] = System("system", [A["up"]])
    else:
        A, _B = c17.build_pair(ctx, env, kind, choice, mixed=False)
        if kind == "genai":
            ctx.assume(V.quantity_base(A["sjob"].request_duration.value)[1] <= 7200)
    V.observe_system(ctx, A, "orig.")
    loaded = roundtrip_core(ctx, A, save_calc)
    if loaded is None or edit_slot is None:
        return
    # the loaded system is live: an edit of a builder input gives the same results on the loaded and on the original system
    name, param, unit = edit_slot
    new = env.fresh("new." + name + "." + param, lo=0, lo_strict=True, hi=10 ** 4, nice=(1, 100))
    for objs in (A, loaded):
        setattr(objs[name], param, SourceValue(new * u(unit)))
    V.compare_systems(ctx, loaded, A, f"edit of {name}.{param} on the loaded system = same edit on the original")


HARNESSES = {"roundtrip": h_roundtrip, "roundtrip_builders": h_roundtrip_builders}


def plan(tier, seed):
    p = []
    for sk in ("T1", "T3", "T9"):
        for sc in (False, True):
            p.append(("roundtrip", dict(skeleton=sk, save_calc=sc)))
    p.append(("roundtrip", dict(skeleton="T5", save_calc=False, args={"type1": "on-premise", "type2": "serverless", "fixed1": 5})))
    p.append(("roundtrip", dict(skeleton="T1", save_calc=False, old_version=True)))
    p.append(("roundtrip", dict(skeleton="T1e", save_calc=False)))
    for sk, st, sc in (("T1", "2024-12-30T22:00:00", False), ("T3", "2027-01-01T00:00:00", True), ("T1", "2021-01-03T05:00:00", True),
                       ("T1", "2024-02-29T23:00:00", False), ("T5", "2025-12-31T23:00:00", False)):
        p.append(("roundtrip", dict(skeleton=sk, save_calc=sc, start=st)))
    p.append(("roundtrip_builders", dict(kind="video", choice="1080p (1920 x 1080)", save_calc=False, edit_slot=["sjob", "refresh_rate", "1/s"])))
    p.append(("roundtrip_builders", dict(kind="web", choice=["php-symfony", "default"], save_calc=True, edit_slot=["sjob", "data_transferred", "MB"])))
    p.append(("roundtrip_builders", dict(kind="genai", choice=["mistralai", "open-mistral-7b"], save_calc=False, edit_slot=["sjob", "output_token_count", "dimensionless"])))
    p.append(("roundtrip_builders", dict(kind="cloud", choice=["scaleway", "ent1-s"], save_calc=False, edit_slot=["pjob", "data_transferred", "MB"])))
    p.append(("roundtrip_builders", dict(kind="cloud", choice=["scaleway", "dev1-s"], save_calc=True)))
    p.append(("roundtrip", dict(skeleton="TX", save_calc=False)))
    p.append(("roundtrip", dict(skeleton="TX", save_calc=True, args={"shared": True})))
    p.append(("roundtrip", dict(skeleton="TX", save_calc=False, args={"same_names": True})))
    p.append(("roundtrip", dict(skeleton="T1", save_calc=False, custom_sources=True)))
    p.append(("roundtrip", dict(skeleton="T9", save_calc=True, custom_sources=True)))
    p.append(("roundtrip", dict(skeleton="T1e", save_calc=True, post_edit=dict(k="list_op", obj="step_empty", attr="jobs", op="append", args=["job"]))))
    p.append(("roundtrip", dict(skeleton="T9", save_calc=False, old_version=True)))
    p.append(("roundtrip", dict(skeleton="T1", save_calc=False, edit=num("job", "data_transferred"))))
    p.append(("roundtrip", dict(skeleton="T9", save_calc=True, edit=dict(k="link", obj="up", attr="network", target="net_alt"))))
    p.append(("roundtrip", dict(skeleton="T1", save_calc=False, post_edit=num("job", "data_stored"))))
    p.append(("roundtrip", dict(skeleton="T9", save_calc=False, post_edit=dict(k="link", obj="up", attr="network", target="net2"))))
    p.append(("roundtrip", dict(skeleton="T1", save_calc=True, post_edit=num("srv", "ram"))))
    if tier == "thorough":
        for sk in ("T2", "T4", "T7"):
            for sc in (False, True):
                p.append(("roundtrip", dict(skeleton=sk, save_calc=sc, n=3)))
        for ed in (num("job", "request_duration"), num("st", "data_storage_duration"), dict(k="tz", obj="fr", zone="America/New_York"),
                   dict(k="server_type", obj="srv", t="serverless")):
            p.append(("roundtrip", dict(skeleton="T1", save_calc=False, edit=ed)))
            p.append(("roundtrip", dict(skeleton="T1", save_calc=True, post_edit=ed)))
        p.append(("roundtrip", dict(skeleton="T9", save_calc=False, old_version=True)))
    return p
