"""C14 — Invalid inputs are rejected, and a rejected edit changes nothing."""
import types
from inspect import signature
from typing import get_args, get_origin

import pint

from efootprint.abstract_modeling_classes.explainable_objects import EmptyExplainableObject, ExplainableQuantity
from efootprint.abstract_modeling_classes.modeling_update import ModelingUpdate
from efootprint.abstract_modeling_classes.source_objects import SourceValue, SourceObject
from efootprint.builders.time_builders import create_source_hourly_values_from_list
from efootprint.constants.units import u
from efootprint.core.all_classes_in_order import ALL_EFOOTPRINT_CLASSES
from efootprint.core.hardware.gpu_server import GPUServer
from efootprint.core.hardware.server import Server
from efootprint.core.hardware.storage import Storage
from harness import model as M, values as V, snap as S, edits as E
from harness.common import traffic_syms, gt_sets

PROPERTY = "C14"
LEVEL = "model_checking"
BOUNDS = {"classes": "every class of ALL_EFOOTPRINT_CLASSES with quantity-valued parameters (construction through "
          "from_defaults with minimal dependencies)", "offending magnitude": "symbolic in [-1000, 1000] (sign), any positive "
          "value in 2 units of another dimension", "other kinds": "float, str, SourceObject, hourly series, None; list "
          "with a wrong-class object; value outside list_values / conditional_list_values",
          "later assignment": "on live T1 / T5 systems, alone and inside a 2-change ModelingUpdate (valid+invalid, both "
          "orders)"}
ASSUMPTIONS = ["'refused' = any exception is raised by the constructor / the assignment",
               "after a refused assignment the whole model is compared with its snapshot (identity, physical values, "
               "graph edges, links, containers)"]
CLASSES = {c.__name__: c for c in ALL_EFOOTPRINT_CLASSES}
OTHER_UNITS = ["GB", "hour", "W", "kg", "dimensionless", "cpu_core"]


def quantity_params(cls):
    out = []
    for name, p in signature(cls.__init__).parameters.items():
        a = p.annotation
        if a is ExplainableQuantity:
            out.append((name, False))
        elif isinstance(a, types.UnionType) or get_origin(a) is not None:
            if ExplainableQuantity in get_args(a):
                out.append((name, True))
    return out


def deps(cls_name):
    """keyword arguments for the link parameters of a class (fresh minimal objects)"""
    from efootprint.builders.services.video_streaming import VideoStreaming
    from efootprint.builders.services.web_application import WebApplication
    from efootprint.builders.services.generative_ai_ecologits import GenAIModel
    st = lambda n="st": Storage.from_defaults(n)  # noqa
    srv = lambda: Server.from_defaults("srv", storage=st())  # noqa
    gpu = lambda: GPUServer.from_defaults("gpu", storage=st("st2"))  # noqa
    return {
        "Storage": {}, "Device": {}, "Network": {}, "Country": {"short_name": "C"},
        "Server": {"storage": st()}, "GPUServer": {"storage": st()}, "BoaviztaCloudServer": {"storage": st()},
        "Job": {"server": srv()}, "UsageJourneyStep": {"jobs": []},
        "VideoStreaming": {"server": srv()}, "WebApplication": {"server": srv()}, "GenAIModel": {"server": gpu()},
        "VideoStreamingJob": {"service": VideoStreaming.from_defaults("vs", server=srv())},
        "WebApplicationJob": {"service": WebApplication.from_defaults("wa", server=srv())},
        "GenAIJob": {"service": GenAIModel.from_defaults("gm", server=gpu())},
    }[cls_name]


def default_unit(cls, param):
    d = cls.default_values().get(param)
    if isinstance(d, ExplainableQuantity):
        return d.value.units
    return u.dimensionless


def bad_value(ctx, kind, cls, param):
    """-> (value, is_invalid_expr or True)"""
    du = default_unit(cls, param)
    if kind == "sign":
        v = ctx.var("v", lo=-1000, hi=1000, nice=(-50, 50))
        return SourceValue(v * du), v
    if kind.startswith("dim:"):
        unit = u(kind.split(":", 1)[1])
        v = ctx.var("v", lo=0, hi=1000, nice=(1, 50))
        return SourceValue(v * unit), None
    if kind == "type:float":
        return 3.0, None
    if kind == "type:str":
        return "3 GB", None
    if kind == "type:object":
        return SourceObject("three"), None
    if kind == "type:hourly":
        return create_source_hourly_values_from_list([1, 2], pint_unit=du), None
    if kind == "type:quantity":
        return 3 * du, None
    raise ValueError(kind)


def other_dim_units(cls, param):
    dd = (1 * default_unit(cls, param)).dimensionality
    return [x for x in OTHER_UNITS if (1 * u(x)).dimensionality != dd][:2]


def h_construct(ctx, cls_name, param, kind):
    cls = CLASSES[cls_name]
    value, v = bad_value(ctx, kind, cls, param)
    lab = f"{cls_name}({param}={kind})"
    extra = {}
    if param == "fixed_nb_of_instances" and "server_type" in cls.default_values():
        from efootprint.core.hardware.server_base import ServerTypes
        extra["server_type"] = ServerTypes.on_premise()    # a fixed count is only allowed on an on-premise server
    try:
        obj = cls.from_defaults("x", **{**deps(cls_name), **extra, param: value})
    except Exception as e:  # noqa: any refusal is fine
        ctx.count("refused")
        if kind == "sign":
            # a refusal of a non-negative value would be a false rejection
            ctx.holds(v < 0, f"{lab}: construction refuses only negative values")
        else:
            ctx.require(True, f"{lab}: invalid value refused at construction")
        return
    if kind == "sign":
        if param in cls.attributes_that_can_have_negative_values():
            ctx.require(True, f"{lab}: negative values are meaningful for this attribute")
        else:
            ctx.holds(v >= 0, f"{lab}: an accepted value is not negative")
    else:
        ctx.require(False, f"{lab}: invalid value refused at construction", f"accepted, got {type(obj).__name__}")


def _live(ctx, skeleton, n=2):
    spec = M.SKELETONS[skeleton](n) if skeleton != "T5f" else M.T5(n, type1="on-premise", type2="autoscaling", fixed1=40)
    env = M.Env(ctx, symbolic=traffic_syms(spec))
    objs = M.build(spec, env)
    return spec, env, objs


CLS_OF = {"job": "Job", "job2": "Job", "srv": "Server", "srv2": "Server", "st": "Storage", "dev": "Device", "fr": "Country",
          "net": "Network", "step": "UsageJourneyStep"}


def h_assign(ctx, skeleton, obj, param, kind, grouped=None):
    spec, env, objs = _live(ctx, skeleton)
    V.observe_system(ctx, objs)
    cls = CLASSES[CLS_OF[obj]]
    value, v = bad_value(ctx, kind, cls, param)
    if grouped in ("link_first", "list_first", "link_and_list_first"):
        # valid structural changes (a link to a spare server, a list with a spare job) submitted together with the invalid
        # value: the spare objects are part of the snapshot, so a back link left on them by the refused update shows
        from efootprint.core.usage.job import Job
        objs["spare_st"] = Storage.from_defaults("spare storage")
        objs["spare_srv"] = Server.from_defaults("spare server", storage=objs["spare_st"])
        objs["spare_job"] = Job.from_defaults("spare job", server=objs["spare_srv"])
    before = S.snapshot(objs)
    lab = f"{obj}.{param} = {kind}" + (f" ({grouped})" if grouped else "")
    target = objs[obj]
    try:
        if grouped is None:
            setattr(target, param, value)
        else:
            good = [objs["dev"].power, SourceValue(77 * u.W)]
            bad = [getattr(target, param), value]
            if grouped == "noop_first":
                # a change that re-submits the current value, followed by the invalid one
                cur = objs["net"].bandwidth_energy_intensity
                ModelingUpdate([[cur, SourceValue(cur.value)], bad])
            elif grouped == "noop_between":
                cur = objs["net"].bandwidth_energy_intensity
                ModelingUpdate([good, [cur, SourceValue(cur.value)], bad])
            elif grouped == "link_first":
                ModelingUpdate([[objs["job"].server, objs["spare_srv"]], bad])
            elif grouped == "list_first":
                ModelingUpdate([[objs["step"].jobs, [objs["job"], objs["spare_job"]]], bad])
            elif grouped == "link_and_list_first":
                ModelingUpdate([[objs["step"].jobs, [objs["spare_job"], objs["job"]]], [objs["job"].server, objs["spare_srv"]], good, bad])
            else:
                ModelingUpdate([good, bad] if grouped == "valid_first" else [bad, good])
    except Exception as e:  # noqa
        ctx.count("refused")
        if kind == "sign":
            neg_ok = param in cls.attributes_that_can_have_negative_values()
            # refusals may also come from recomputation (C15); validation refusals must be for negative values
            if type(e).__name__ == "ValueError" and "should be positive" in str(e):
                ctx.holds(v < 0, f"{lab}: sign validation refuses only negative values")
                ctx.require(not neg_ok, f"{lab}: negative allowed attribute is not refused by sign validation")
            else:
                raise
        S.compare_snapshots(ctx, before, S.snapshot(objs), f"after refused {lab}")
        return
    if kind == "sign":
        if param not in cls.attributes_that_can_have_negative_values():
            ctx.holds(v >= 0, f"{lab}: an accepted assignment is not negative")
        else:
            ctx.require(True, f"{lab}: negative values are meaningful for this attribute")
    else:
        ctx.require(False, f"{lab}: invalid value refused on assignment", "accepted")


def h_special(ctx, case):
    """list with a wrong-class object, allowed-value lists, conditional lists, None"""
    spec, env, objs = _live(ctx, "T5f" if case.startswith("fixed") or case.startswith("type_") else "T1")
    V.observe_system(ctx, objs)
    before = S.snapshot(objs)
    acts = {
        "list_wrong_class_assign": lambda: setattr(objs["step"], "jobs", [objs["job"], objs["dev"]]),
        "list_wrong_class_append": lambda: objs["step"].jobs.append(objs["dev"]),
        "list_wrong_class_devices": lambda: setattr(objs["up"], "devices", [objs["dev"], objs["net"]]),
        "link_wrong_class": lambda: setattr(objs["job"], "server", objs["st"]),
        "server_type_outside_list": lambda: setattr(objs["srv"], "server_type", SourceObject("bare-metal")),
        "server_type_outside_list_grouped": lambda: ModelingUpdate([[objs["dev"].power, SourceValue(77 * u.W)],
                                                                    [objs["srv"].server_type, SourceObject("bare-metal")]]),
        "fixed_count_on_autoscaling": lambda: setattr(objs["srv2"], "fixed_nb_of_instances", SourceValue(50 * u.dimensionless)),
        "type_autoscaling_with_fixed_count": lambda: setattr(objs["srv"], "server_type", SourceObject("autoscaling")),
        # the same two refusals inside an update whose first change belongs to another class (the allowed values of every
        # changed object are checked, whatever comes first)
        "fixed_count_on_autoscaling_after_job_change": lambda: ModelingUpdate(
            [[objs["job"].data_transferred, SourceValue(7 * u.MB)], [objs["srv2"].fixed_nb_of_instances, SourceValue(50 * u.dimensionless)]]),
        "type_autoscaling_with_fixed_count_after_network_change": lambda: ModelingUpdate(
            [[objs["net"].bandwidth_energy_intensity, SourceValue(0.07 * u.kWh / u.GB)], [objs["srv"].server_type, SourceObject("autoscaling")]]),
        "fixed_count_on_autoscaling_before_step_change": lambda: ModelingUpdate(
            [[objs["srv2"].fixed_nb_of_instances, SourceValue(50 * u.dimensionless)], [objs["step"].user_time_spent, SourceValue(3 * u.min)]]),
        "none_for_quantity": lambda: setattr(objs["job"], "data_transferred", None),
        "timezone_wrong_type": lambda: setattr(objs["fr"], "timezone", "Europe/Paris"),
        "starts_scalar_for_hourly": lambda: setattr(objs["up"], "hourly_usage_journey_starts", SourceValue(3 * u.dimensionless)),
    }
    try:
        acts[case]()
    except Exception:  # noqa
        ctx.count("refused")
        S.compare_snapshots(ctx, before, S.snapshot(objs), f"after refused {case}")
        return
    if case == "none_for_quantity":
        # None is turned into an empty value by the update machinery: accepted by design, nothing to compare
        ctx.require(True, "None is accepted as 'no value'")
        return
    ctx.require(False, f"{case}: invalid value refused", "accepted")


def h_special_builders(ctx, case):
    """the conditional allowed values inherited from the server base class hold for the builder servers too (cloud-instance
    server, GPU server): a fixed instance count only with on-premise"""
    from harness import c17
    from efootprint.builders.hardware.boavizta_cloud_server import BoaviztaCloudServer
    from efootprint.core.hardware.gpu_server import GPUServer
    from efootprint.core.hardware.server_base import ServerTypes
    from efootprint.core.hardware.storage import Storage
    env = c17.builder_env(ctx, "cloud")
    A = c17.builder_system(ctx, env, "cloud", ["scaleway", "ent1-s"])
    V.observe_system(ctx, A)
    before = S.snapshot(A)
    three = lambda: SourceValue(3 * u.dimensionless)  # noqa
    acts = {
        "cloud_fixed_count_on_autoscaling": lambda: setattr(A["srv"], "fixed_nb_of_instances", three()),
        "cloud_construct_fixed_on_autoscaling": lambda: BoaviztaCloudServer.from_defaults(
            "x", server_type=ServerTypes.autoscaling(), fixed_nb_of_instances=three(), storage=Storage.from_defaults("stx")),
        "cloud_construct_fixed_on_serverless": lambda: BoaviztaCloudServer.from_defaults(
            "x", server_type=ServerTypes.serverless(), fixed_nb_of_instances=three(), storage=Storage.from_defaults("stx")),
        "gpu_construct_fixed_on_serverless": lambda: GPUServer.from_defaults(
            "g", server_type=ServerTypes.serverless(), fixed_nb_of_instances=three(), storage=Storage.from_defaults("stg")),
        "cloud_grouped_fixed_after_job_change": lambda: ModelingUpdate(
            [[A["pjob"].data_transferred, SourceValue(7 * u.MB)], [A["srv"].fixed_nb_of_instances, three()]]),
        "cloud_instance_type_of_other_provider": lambda: setattr(A["srv"], "instance_type", SourceObject("a1.4xlarge")),
    }
    try:
        acts[case]()
    except Exception:  # noqa
        ctx.count("refused")
        S.compare_snapshots(ctx, before, S.snapshot(A), f"after refused {case}")
        return
    ctx.require(False, f"{case}: invalid value refused", "accepted")


HARNESSES = {"construct": h_construct, "assign": h_assign, "special": h_special, "special_builders": h_special_builders}
TYPE_KINDS = ["type:float", "type:str", "type:object", "type:hourly", "type:quantity"]


def plan(tier, seed):
    import random
    rnd = random.Random(seed)
    p = []
    cons = []
    for cn, cls in CLASSES.items():
        if cn in ("System", "UsagePattern", "UsageJourney"):
            continue
        for param, is_union in quantity_params(cls):
            cons.append(("construct", dict(cls_name=cn, param=param, kind="sign")))
            for un in other_dim_units(cls, param):
                cons.append(("construct", dict(cls_name=cn, param=param, kind=f"dim:{un}")))
            for k in TYPE_KINDS:
                cons.append(("construct", dict(cls_name=cn, param=param, kind=k)))
    if tier == "quick":
        sign = [c for c in cons if c[1]["kind"] == "sign"]
        rest = [c for c in cons if c[1]["kind"] != "sign"]
        rnd.shuffle(rest)
        p += sign + rest[:120]
    else:
        p += cons
    live = []
    for sk, objs_params in (("T1", [("job", q) for q, _, _ in M.PARAMS["job"]] + [("srv", q) for q, _, _ in M.PARAMS["server"]]
                             + [("st", q) for q, _, _ in M.PARAMS["storage"]] + [("dev", q) for q, _, _ in M.PARAMS["device"]]
                             + [("fr", "average_carbon_intensity"), ("net", "bandwidth_energy_intensity"), ("step", "user_time_spent")]),):
        for o, q in objs_params:
            cls = CLASSES[CLS_OF[o]]
            live.append(("assign", dict(skeleton=sk, obj=o, param=q, kind="sign")))
            live.append(("assign", dict(skeleton=sk, obj=o, param=q, kind=f"dim:{other_dim_units(cls, q)[0]}")))
            live.append(("assign", dict(skeleton=sk, obj=o, param=q, kind=rnd.choice(TYPE_KINDS))))
            live.append(("assign", dict(skeleton=sk, obj=o, param=q, kind=f"dim:{other_dim_units(cls, q)[1]}", grouped=rnd.choice(["valid_first", "invalid_first"]))))
    for o, q in (("job", "ram_needed"), ("job", "request_duration"), ("srv", "ram"), ("step", "user_time_spent"), ("st", "storage_capacity")):
        cls = CLASSES[CLS_OF[o]]
        for g in ("noop_first", "noop_between"):
            p.append(("assign", dict(skeleton="T1", obj=o, param=q, kind="sign", grouped=g)))
            p.append(("assign", dict(skeleton="T1", obj=o, param=q, kind=f"dim:{other_dim_units(cls, q)[0]}", grouped=g)))
    # a valid link / list change submitted together with (before) the invalid value
    for o, q in (("job", "data_transferred"), ("srv", "ram"), ("dev", "power"), ("net", "bandwidth_energy_intensity")):
        cls = CLASSES[CLS_OF[o]]
        for g in ("link_first", "list_first", "link_and_list_first"):
            p.append(("assign", dict(skeleton="T1", obj=o, param=q, kind="sign", grouped=g)))
            p.append(("assign", dict(skeleton="T1", obj=o, param=q, kind=f"dim:{other_dim_units(cls, q)[0]}", grouped=g)))
        p.append(("assign", dict(skeleton="T1", obj=o, param=q, kind=TYPE_KINDS[0], grouped="link_first")))
    if tier == "quick":
        keep = [x for x in live if x[1]["kind"] == "sign"]
        rest = [x for x in live if x[1]["kind"] != "sign"]
        rnd.shuffle(rest)
        p += keep + rest[:40]
    else:
        p += live
        for o, q in (("job", "data_transferred"), ("srv", "ram"), ("st", "storage_capacity")):
            for k in TYPE_KINDS:
                for g in ("valid_first", "invalid_first"):
                    p.append(("assign", dict(skeleton="T5", obj=o, param=q, kind=k, grouped=g)))
    for case in ("list_wrong_class_assign", "list_wrong_class_append", "list_wrong_class_devices", "link_wrong_class",
                 "server_type_outside_list", "server_type_outside_list_grouped", "fixed_count_on_autoscaling",
                 "type_autoscaling_with_fixed_count", "none_for_quantity", "timezone_wrong_type", "starts_scalar_for_hourly",
                 "fixed_count_on_autoscaling_after_job_change", "type_autoscaling_with_fixed_count_after_network_change",
                 "fixed_count_on_autoscaling_before_step_change"):
        p.append(("special", dict(case=case), dict(allow_no_obligation=False)))
    for case in ("cloud_fixed_count_on_autoscaling", "cloud_construct_fixed_on_autoscaling", "cloud_construct_fixed_on_serverless",
                 "gpu_construct_fixed_on_serverless", "cloud_grouped_fixed_after_job_change", "cloud_instance_type_of_other_provider"):
        p.append(("special_builders", dict(case=case), dict(allow_no_obligation=False)))
    return p
