"""C15 — A failed recomputation can always be recovered from."""
from efootprint.abstract_modeling_classes.source_objects import SourceValue
from efootprint.constants.units import u
from harness import model as M, values as V, snap as S, edits as E
from harness.common import traffic_syms, gt_sets
from harness.c01 import _sym_for, resolve, num, compare_live_fresh, collect_slots

PROPERTY = "C15"
LEVEL = "model_checking"
BOUNDS = {"hours_per_series": "N=2", "skeletons": "T1 (autoscaling), T5 (on-premise with fixed count + serverless), T1 with "
          "fixed storage count", "failing edits": "the new value is symbolic: the raising branches of "
          "update_available_ram/compute_per_instance, on_premise_update_nb_of_instances, "
          "Storage.update_full_cumulative_storage_need and Storage.update_nb_of_instances are reached as feasible decisions",
          "other failures": "a zero request duration (ZeroDivisionError while recomputing); dated simulations of link changes that raise, followed by plain edits",
          "sequences": "fail -> recover; fail -> fail again (other value) -> recover; each followed by one valid edit "
                       "compared with a fresh build"}
ASSUMPTIONS = ["'restores exactly the model' = every calculated attribute and every input physically equal to the pre-edit "
               "snapshot (object identity is not required: the values are recomputed)",
               "'edits after that behave as on a freshly built system' = one further valid numeric edit compared with a "
               "system built from scratch from the final inputs"]


def h_recover(ctx, skeleton, edit, followup, args=None, twice=False, n=2, storage_fixed=None, small_base=False, deleting=False,
              bad_values=None):
    spec = M.SKELETONS[skeleton](n, **(args or {}))
    if storage_fixed is not None:
        spec["storages"]["st"]["fixed_nb_of_instances"] = storage_fixed
    sym = traffic_syms(spec)
    sym.update(collect_slots(spec, [edit, followup]))
    values = {"st.base_storage_need": 0.000001} if small_base else {}
    if deleting:
        values["jobdel.data_stored"] = -500     # a job that deletes data: lowering the initial need can make storage negative
    env0 = M.Env(ctx, symbolic=sym, values=values)
    objs = M.build(spec, env0)
    V.observe_system(ctx, objs, "0.")
    before = S.snapshot(objs)
    o, param = edit["obj"], edit["param"]
    d, un = E.param_info(spec, o, param) if param != "fixed_nb_of_instances" else (None, "dimensionless")
    old = env0.get(f"{o}.{param}", d if d is not None else (spec["servers"].get(o, spec["storages"].get(o, {})).get("fixed_nb_of_instances")))
    attempts = 2 if twice else 1
    failed = 0
    for k in range(attempts):
        spec_range = dict(edit.get("range") or {})
        if bad_values is not None:
            # concrete failing value (e.g. a zero duration: the engine assumes symbolic divisors non-zero)
            new = bad_values[k % len(bad_values)]
        else:
            new = env0.fresh(f"bad{k}.{o}.{param}", **(spec_range or _sym_for(spec, o, param)))
            ctx.assume(new != old)
        try:
            setattr(objs[o], param, SourceValue(new * u(un)))
        except Exception as e:  # noqa - any exception raised while recomputing an accepted edit is a failed edit
            if isinstance(e, ValueError) and ("should be positive" in str(e) or "not homogeneous" in str(e)):
                raise
            if type(e).__name__ in ("PathAbort", "EngineError"):
                raise
            failed += 1
            ctx.count(f"failed_with_{type(e).__name__}")
            continue
        # accepted edit: not the subject here (C01); stop this path after noting it
        ctx.require(True, "edit accepted on this path (no failure to recover from)")
        return
    ctx.count("failed_edits", failed)
    # recover: re-assign the previous value (same physical value, new object)
    try:
        setattr(objs[o], param, SourceValue(old * u(un)))
    except Exception as e:  # noqa
        ctx.require(False, f"re-assigning the previous value of {o}.{param} after {failed} failed edit(s) works",
                    f"{type(e).__name__}: {str(e)[:160]}")
        raise
    S.compare_snapshots(ctx, before, S.snapshot(objs), f"after {failed} failed edit(s) of {o}.{param} and re-assignment",
                        identity=False, values=True, graph=False)
    # one further valid edit behaves as on a fresh system
    e2 = resolve(ctx, env0, env0, spec, followup, 9)
    try:
        spec2, env2 = E.apply(objs, spec, env0, e2)
    except ValueError:
        raise
    except Exception as e:  # noqa
        ctx.require(False, f"a later valid edit ({followup['obj']}.{followup['param']}) works after recovering {o}.{param}",
                    f"{type(e).__name__}: {str(e)[:160]}")
        raise
    compare_live_fresh(ctx, objs, spec2, env2, f"later edit of {followup['obj']}.{followup['param']} after recovering {o}.{param}")


def h_recover_link(ctx, case, followup, n=2):
    """a *link* edit whose recomputation raises (a heavy job added to an on-premise server with a fixed count)"""
    spec = M.T5(n, type1="on-premise", type2="serverless", fixed1=40)
    spec["jobs"]["heavy"] = {"server": "srv"}
    spec["steps"]["step_h"] = {"jobs": ["heavy"]}
    sym = traffic_syms(spec)
    sym["heavy.ram_needed"] = dict(lo=0, hi=10 ** 9, nice=(10 ** 5, 10 ** 8))
    sym.update(collect_slots(spec, [followup]))
    env0 = M.Env(ctx, symbolic=sym)
    objs = M.build(spec, env0)
    V.observe_system(ctx, objs, "0.")
    before = S.snapshot(objs)
    def iadd_job():
        cur = objs["step"].jobs
        cur += [objs["heavy"]]
        objs["step"].jobs = cur
    edits = {"iadd_job": (iadd_job, lambda: setattr(objs["step"], "jobs", [objs["job"], objs["job2"]])),
             "append_job": (lambda: objs["step"].jobs.append(objs["heavy"]), lambda: setattr(objs["step"], "jobs", [objs["job"], objs["job2"]])),
             "assign_jobs": (lambda: setattr(objs["step"], "jobs", [objs["heavy"], objs["job"], objs["job2"]]), lambda: setattr(objs["step"], "jobs", [objs["job"], objs["job2"]])),
             "append_step": (lambda: objs["uj"].uj_steps.append(objs["step_h"]), lambda: setattr(objs["uj"], "uj_steps", [objs["step"]]))}
    do, undo = edits[case]
    try:
        do()
    except ValueError:
        pass
    else:
        ctx.require(True, "edit accepted on this path (no failure to recover from)")
        return
    try:
        undo()
    except Exception as e:  # noqa
        ctx.require(False, f"re-assigning the previous list after the failed {case} works", f"{type(e).__name__}: {str(e)[:160]}")
        raise
    # '#active_containers' counts wrapper registrations (internal multiplicity; the leftover registered copy of a refused
    # list mutation is known finding R2 of C14/C16): the observable reverse links are compared by C16
    S.compare_snapshots(ctx, before, S.snapshot(objs), f"after failed {case} and re-assignment", identity=False, values=True,
                        graph=False, skip_attrs=("#active_containers",))
    e2 = resolve(ctx, env0, env0, spec, followup, 9)
    try:
        spec2, env2 = E.apply(objs, spec, env0, e2)
    except ValueError:
        raise
    except Exception as e:  # noqa
        ctx.require(False, f"a later valid edit works after recovering from the failed {case}", f"{type(e).__name__}: {str(e)[:160]}")
        raise
    compare_live_fresh(ctx, objs, spec2, env2, f"later edit after recovering from the failed {case}")


def h_failed_sim(ctx, case, followups, n=2):
    """a dated what-if simulation of a *link* change whose recomputation raises (heavy job on an on-premise server with a
    fixed count): the baseline is untouched, and later plain edits of inputs the simulation had to copy (ancestors of
    the recomputed values) behave as on a fresh system"""
    from efootprint.abstract_modeling_classes.modeling_update import ModelingUpdate
    spec = M.T5(n, type1="on-premise", type2="serverless", fixed1=40)
    spec["jobs"]["heavy"] = {"server": "srv"}
    spec["steps"]["step_h"] = {"jobs": ["heavy"]}
    sym = traffic_syms(spec)
    sym["heavy.ram_needed"] = dict(lo=0, hi=10 ** 9, nice=(10 ** 5, 10 ** 8))
    sym.update(collect_slots(spec, followups))
    env0 = M.Env(ctx, symbolic=sym)
    objs = M.build(spec, env0)
    V.observe_system(ctx, objs, "0.")
    before = S.snapshot(objs)
    first = min(V.utc_key(ts) for ts in objs["up"].utc_hourly_usage_journey_starts.value.index)
    when = (first + (first - first)).to_pydatetime() if case.endswith("@first") else (first + __import__("datetime").timedelta(hours=1)).to_pydatetime()
    changes = {"assign_jobs": lambda: [[objs["step"].jobs, [objs["heavy"], objs["job"], objs["job2"]]]],
               "append_step": lambda: [[objs["uj"].uj_steps, [objs["step"], objs["step_h"]]]],
               "job_server": lambda: [[objs["job2"].server, objs["srv"]], [objs["job2"].ram_needed, SourceValue(env0.get("heavy.ram_needed", 1) * u.MB)]]}[case.split("@")[0]]()
    try:
        ModelingUpdate(changes, when)
    except ValueError:
        pass
    else:
        ctx.require(True, "simulation accepted on this path (no failure to recover from)")
        return
    S.compare_snapshots(ctx, before, S.snapshot(objs), f"after the failed simulation of {case}", identity=False, values=True,
                        graph=False, skip_attrs=("#active_containers",))
    env, sp = env0, spec
    for i, fu in enumerate(followups):
        e2 = resolve(ctx, env, env0, sp, fu, 9 + i)
        sp, env = E.apply(objs, sp, env, e2)
        compare_live_fresh(ctx, objs, sp, env, f"edit {i + 1} ({fu['obj']}.{fu['param']}) after the failed simulation of {case}")


HARNESSES = {"recover": h_recover, "recover_link": h_recover_link, "failed_sim": h_failed_sim}
FIX = dict(obj="srv", param="fixed_nb_of_instances", k="num", range=dict(lo=0, lo_strict=True, hi=10 ** 6, nice=(1, 60)))
STFIX = dict(obj="st", param="fixed_nb_of_instances", k="num", range=dict(lo=0, lo_strict=True, hi=10 ** 6, nice=(1, 60)))
BASE = dict(obj="st", param="base_storage_need", k="num", range=dict(lo=0, hi=10, nice=(0, 0.001)))
NEGSTORE = dict(obj="job", param="data_stored", k="num", range=dict(lo=-10 ** 9, hi=10 ** 9, nice=(-10 ** 6, 10 ** 6)))


def plan(tier, seed):
    T5f = {"type1": "on-premise", "type2": "serverless", "fixed1": 40}
    p = [("recover", dict(skeleton="T1", edit=num("srv", "base_ram_consumption"), followup=num("job", "data_transferred"))),
         ("recover", dict(skeleton="T1", edit=num("srv", "ram"), followup=num("job", "ram_needed"))),
         ("recover", dict(skeleton="T1", edit=num("srv", "server_utilization_rate"), followup=num("dev", "power"))),
         ("recover", dict(skeleton="T1", edit=num("srv", "base_compute_consumption"), followup=num("srv", "power"))),
         ("recover", dict(skeleton="T5", args=T5f, edit=FIX, followup=num("job", "data_transferred"))),
         ("recover", dict(skeleton="T5", args=T5f, edit=num("job", "ram_needed"), followup=num("job2", "data_transferred"))),
         ("recover", dict(skeleton="T5", args=T5f, edit=num("srv", "ram"), followup=num("job", "compute_needed"))),
         ("recover", dict(skeleton="T1", storage_fixed=30, edit=STFIX, followup=num("job", "data_stored"))),
         ("recover", dict(skeleton="T1", storage_fixed=30, edit=num("st", "storage_capacity"), followup=num("job", "data_transferred"))),
         ("recover", dict(skeleton="T1", small_base=True, edit=NEGSTORE, followup=num("job", "data_transferred"))),
         ("recover", dict(skeleton="T1", edit=num("srv", "base_ram_consumption"), followup=num("srv", "base_ram_consumption"), twice=True)),
         ("recover", dict(skeleton="T5", args=T5f, edit=FIX, followup=num("srv", "ram"), twice=True)),
         ("recover_link", dict(case="append_job", followup=num("job", "data_transferred"))),
         ("recover_link", dict(case="iadd_job", followup=num("job2", "data_transferred"))),
         ("recover", dict(skeleton="T7", args={"offset_hours": 0}, deleting=True, edit=BASE, followup=num("job", "data_transferred"))),
         ("recover", dict(skeleton="T7", args={"offset_hours": 1}, deleting=True, edit=BASE, followup=num("dev", "power"), twice=True)),
         ("recover_link", dict(case="assign_jobs", followup=num("job2", "ram_needed"))),
         ("recover_link", dict(case="append_step", followup=num("dev", "power"))),
         # recomputation failing with another exception than ValueError (division by a zero duration)
         ("recover", dict(skeleton="T1", edit=num("job", "request_duration"), bad_values=[0], followup=num("job", "data_transferred"))),
         ("recover", dict(skeleton="T5", args=T5f, edit=num("job2", "request_duration"), bad_values=[0, 0], followup=num("job2", "data_stored"), twice=True)),
         # failing dated simulations of link changes, then edits of inputs the simulation had copied
         ("failed_sim", dict(case="assign_jobs", followups=[num("srv", "ram"), num("step", "user_time_spent")])),
         ("failed_sim", dict(case="append_step@first", followups=[num("fr", "average_carbon_intensity"), num("job", "data_transferred")])),
         ("failed_sim", dict(case="job_server", followups=[num("srv", "ram"), num("dev", "power")]))]
    if tier == "thorough":
        for sk, a in (("T3", None), ("T9", None), ("T7", None)):
            for ed, fu in ((num("srv", "base_ram_consumption"), num("job", "data_transferred")), (num("srv", "ram"), num("dev", "power")),
                           (NEGSTORE, num("job", "ram_needed"))):
                p.append(("recover", dict(skeleton=sk, args=a, edit=ed, followup=fu, n=2, small_base=True)))
        for ed in (num("srv", "ram"), num("srv", "server_utilization_rate"), STFIX):
            p.append(("recover", dict(skeleton="T1", storage_fixed=30, edit=ed, followup=num("job", "data_stored"), twice=True, n=3)))
    return p
