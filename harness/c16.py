"""C16 — Links between objects stay consistent under every kind of edit."""
import itertools
import random

from efootprint.abstract_modeling_classes.contextual_modeling_object_attribute import ContextualModelingObjectAttribute
from efootprint.abstract_modeling_classes.list_linked_to_modeling_obj import ListLinkedToModelingObj
from efootprint.abstract_modeling_classes.modeling_object import ModelingObject
from efootprint.core.system import System
from harness import model as M, values as V
from harness.common import traffic_syms
from efootprint.abstract_modeling_classes.source_objects import SourceValue
from efootprint.constants.units import u

PROPERTY = "C16"
LEVEL = "exploration"
BOUNDS = {"skeleton": "T9 (two usage patterns, spare objects of every class, lists of 1-2 elements, pools of 3)",
          "operations": "assign, append, insert, extend, +=, *=, pop, remove, del, item assignment, slice assignment, "
                        "clear on uj_steps / jobs / devices / usage_patterns; link re-pointing; self_delete; second system",
          "arguments": "indices and repeat counts are integer proxies in -3..3 / 0..2: every solver-feasible value is "
                       "explored (present, absent, duplicate and no-op arguments arise as branch outcomes)",
          "sequences": "1 operation (quick), 2 operations (thorough sample)"}
ASSUMPTIONS = ["no arithmetic content: the engine only enumerates the integer arguments; every obligation is a concrete "
               "comparison (level: exploration)",
               "an operation that plain Python lists refuse (IndexError/ValueError) may be refused; the state must then still "
               "be consistent"]
LISTS = {"uj_steps": ("uj", ["step", "step3", "step_alt"]), "jobs": ("step", ["job", "job_alt", "job3"]),
         "devices": ("up", ["dev", "dev_alt", "dev2"]), "usage_patterns": ("system", ["up", "up2"])}


def _ids(objs_list):
    """python identities (not the model's own ids: two distinct objects are two referrers whatever their ids say)"""
    return sorted(id(getattr(o, "_value", o)) for o in objs_list)


def forward_model(objs):
    """reverse look-ups recomputed from forward links only; objects are keyed by python identity"""
    real = {n: o for n, o in objs.items() if isinstance(o, ModelingObject)}
    fwd = {}
    for n, o in real.items():
        targets = []
        for attr, v in o.__dict__.items():
            if isinstance(v, ContextualModelingObjectAttribute):
                targets.append(v._value)
            elif isinstance(v, ListLinkedToModelingObj):
                targets += [getattr(e, "_value", e) for e in v]
        fwd[id(o)] = targets
    byid = {id(o): o for o in real.values()}
    containers = {i: [] for i in byid}
    for src, ts in fwd.items():
        for t in ts:
            if id(t) in containers and src not in [id(c) for c in containers[id(t)]]:
                containers[id(t)].append(byid[src])
    return byid, fwd, containers


def reach_up(containers, oid, cls_name, seen=None):
    """all ancestors (through reverse links) of a given class"""
    out, stack, seen = [], [oid], set()
    while stack:
        i = stack.pop()
        for c in containers.get(i, []):
            if id(c) in seen:
                continue
            seen.add(id(c))
            if type(c).__name__ == cls_name:
                out.append(c)
            stack.append(id(c))
    return out


def check_links(ctx, objs, label):
    byid, fwd, containers = forward_model(objs)
    for n, o in objs.items():
        if not isinstance(o, ModelingObject):
            continue
        w = f"{label}: {n}"
        ctx.require(_ids(o.modeling_obj_containers) == _ids(containers[id(o)]),
                    f"{w}.modeling_obj_containers = objects that currently reference it",
                    f"{[c.name for c in o.modeling_obj_containers]} vs {[c.name for c in containers[id(o)]]}")
        cn = type(o).__name__
        exp_systems = reach_up(containers, id(o), "System") if cn != "System" else [o]
        try:
            got = o.systems
            ctx.require(_ids(got) == _ids(exp_systems), f"{w}.systems", f"{[s.name for s in got]} vs {[s.name for s in exp_systems]}")
            ctx.require(len(exp_systems) <= 1, f"{w} belongs to at most one system")
        except Exception as e:  # noqa
            ctx.require(False, f"{w}.systems can be read", f"{type(e).__name__}: {str(e)[:100]}")
        if cn in ("Job",):
            ctx.require(_ids(o.usage_patterns) == _ids(reach_up(containers, id(o), "UsagePattern")), f"{w}.usage_patterns",
                        f"{[x.name for x in o.usage_patterns]}")
            ctx.require(_ids(o.usage_journey_steps) == _ids([c for c in containers[id(o)] if type(c).__name__ == "UsageJourneyStep"]),
                        f"{w}.usage_journey_steps")
            nets = {}
            for pat in reach_up(containers, id(o), "UsagePattern"):
                for t in fwd[id(pat)]:
                    if type(t).__name__ == "Network":
                        nets[id(t)] = t
            ctx.require(_ids(o.networks) == _ids(nets.values()), f"{w}.networks")
        if cn in ("Server", "GPUServer"):
            ctx.require(_ids(o.jobs) == _ids([c for c in containers[id(o)] if type(c).__name__ == "Job"]), f"{w}.jobs",
                        f"{[x.name for x in o.jobs]}")
        if cn == "UsageJourney":
            ctx.require(_ids(o.usage_patterns) == _ids([c for c in containers[id(o)] if type(c).__name__ == "UsagePattern"]),
                        f"{w}.usage_patterns")
        if cn in ("UsageJourneyStep",):
            ctx.require(_ids(o.usage_journeys) == _ids([c for c in containers[id(o)] if type(c).__name__ == "UsageJourney"]),
                        f"{w}.usage_journeys", f"{[x.name for x in o.usage_journeys]}")
            ctx.require(_ids(o.usage_patterns) == _ids(reach_up(containers, id(o), "UsagePattern")), f"{w}.usage_patterns")
        if cn in ("Network", "Country"):
            ctx.require(_ids(o.usage_patterns) == _ids([c for c in containers[id(o)] if type(c).__name__ == "UsagePattern"]),
                        f"{w}.usage_patterns")


def do_op(ctx, objs, owner, attr, pool, op, mirror, idx=None, cnt=None, pick=0):
    """apply op on the real list and on the plain mirror; returns (raised_real, raised_mirror)"""
    lst = getattr(objs[owner], attr)
    o1, o2 = objs[pool[pick % len(pool)]], objs[pool[(pick + 1) % len(pool)]]
    n1, n2 = pool[pick % len(pool)], pool[(pick + 1) % len(pool)]

    def real():
        if op == "assign":
            setattr(objs[owner], attr, [o2, o1])
        elif op == "assign_dup":
            setattr(objs[owner], attr, [o1, o1])
        elif op == "assign_same":
            setattr(objs[owner], attr, list(getattr(objs[owner], attr)))
        elif op == "append":
            lst.append(o1)
        elif op == "insert":
            lst.insert(idx, o1)
        elif op == "extend":
            lst.extend([o1, o2])
        elif op == "extend_empty":
            lst.extend([])
        elif op == "iadd":
            cur = getattr(objs[owner], attr)
            cur += [o1]
            setattr(objs[owner], attr, cur)
        elif op == "imul":
            cur = getattr(objs[owner], attr)
            cur *= cnt
            setattr(objs[owner], attr, cur)
        elif op == "pop":
            lst.pop(idx)
        elif op == "pop_last":
            lst.pop()
        elif op == "remove":
            lst.remove(o1)
        elif op == "delitem":
            del lst[idx]
        elif op == "setitem":
            lst[idx] = o1
        elif op == "setslice":
            lst[0:1] = [o1, o2]
        elif op == "clear":
            lst.clear()
        else:
            raise ValueError(op)

    def plain():
        if op == "assign":
            mirror[:] = [n2, n1]
        elif op == "assign_dup":
            mirror[:] = [n1, n1]
        elif op == "assign_same":
            pass
        elif op == "append":
            mirror.append(n1)
        elif op == "insert":
            mirror.insert(int(idx), n1)
        elif op == "extend":
            mirror.extend([n1, n2])
        elif op == "extend_empty":
            pass
        elif op == "iadd":
            mirror.extend([n1])
        elif op == "imul":
            mirror[:] = mirror * int(cnt)
        elif op == "pop":
            mirror.pop(int(idx))
        elif op == "pop_last":
            mirror.pop()
        elif op == "remove":
            mirror.remove(n1)
        elif op == "delitem":
            del mirror[int(idx)]
        elif op == "setitem":
            mirror[int(idx)] = n1
        elif op == "setslice":
            mirror[0:1] = [n1, n2]
        elif op == "clear":
            mirror.clear()
    r_real = r_plain = None
    try:
        real()
    except Exception as e:  # noqa
        r_real = e
    try:
        plain()
    except Exception as e:  # noqa
        r_plain = e
    return r_real, r_plain


def _spec16():
    """T9 with two elements in every list link, so that removals leave survivors"""
    spec = M.T9(2)
    spec["journeys"]["uj"]["steps"] = ["step", "step3"]
    spec["steps"]["step"]["jobs"] = ["job", "job_alt"]
    spec["patterns"]["up"]["devices"] = ["dev", "dev_alt"]
    return spec


def h_list_ops(ctx, attr, ops):
    spec = _spec16()
    env = M.Env(ctx, {})
    objs = M.build(spec, env)
    owner, pool = LISTS[attr]
    coll, key = {"uj_steps": ("journeys", "steps"), "jobs": ("steps", "jobs"), "devices": ("patterns", "devices"),
                 "usage_patterns": ("system", "patterns")}[attr]
    mirror = list(spec["system"][key] if coll == "system" else spec[coll][owner][key])
    check_links(ctx, objs, "initially")
    for k, (op, pick) in enumerate(ops):
        idx = ctx.var(f"i{k}", lo=-3, hi=3, integer=True) if op in ("insert", "pop", "delitem", "setitem") else None
        cnt = ctx.var(f"n{k}", lo=0, hi=2, integer=True) if op == "imul" else None
        before = list(mirror)
        r_real, r_plain = do_op(ctx, objs, owner, attr, pool, op, mirror, idx, cnt, pick)
        lab = f"after {attr}.{op}" + (f"({int(idx)})" if idx is not None else "") + (f"(x{int(cnt)})" if cnt is not None else "")
        if r_plain is not None:
            ctx.require(r_real is not None, f"{lab}: refused like a Python list refuses it ({type(r_plain).__name__})")
            mirror[:] = before
        elif r_real is not None:
            # a refusal is acceptable only for structural reasons of the model (e.g. emptying what must not be empty)
            ctx.require(isinstance(r_real, (ValueError, PermissionError)), f"{lab}: refusal is a model error",
                        f"{type(r_real).__name__}: {str(r_real)[:120]}")
            ctx.count("model_refusals")
            mirror[:] = before
        got = [getattr(e, "_value", e).name for e in getattr(objs[owner], attr)]
        ctx.require(got == mirror, f"{lab}: list content equals the plain-list mirror", f"{got} vs {mirror}")
        check_links(ctx, objs, lab)


def _same_names(spec):
    """distinct objects of one class carrying the same display name (two jobs called alike on one server, ...)"""
    for coll, pairs in (("jobs", [("job2", "job"), ("job3", "job")]), ("devices", [("dev_alt", "dev")]), ("networks", [("net2", "net")]),
                        ("steps", [("step2", "step")]), ("servers", [("srv_alt", "srv")]), ("storages", [("st_alt", "st")])):
        for a, b in pairs:
            if a in spec.get(coll, {}) and b in spec[coll]:
                spec[coll][a]["name"] = spec[coll][b].get("name", b)
    return spec


def h_repoint(ctx, case, same_names=False):
    spec = M.T9(2)
    if same_names:
        _same_names(spec)
    objs = M.build(spec, M.Env(ctx, {}))
    check_links(ctx, objs, "after building")
    acts = {
        "job.server": lambda: setattr(objs["job"], "server", objs["srv_alt"]),
        "job.server_back": lambda: (setattr(objs["job"], "server", objs["srv_alt"]), setattr(objs["job"], "server", objs["srv"])),
        "srv.storage": lambda: setattr(objs["srv"], "storage", objs["st_free"]),
        "up.network": lambda: setattr(objs["up"], "network", objs["net2"]),
        "up.country": lambda: setattr(objs["up"], "country", objs["my"]),
        "up.usage_journey": lambda: setattr(objs["up"], "usage_journey", objs["uj2"]),
        "up.usage_journey_alt": lambda: setattr(objs["up"], "usage_journey", objs["uj_alt"]),
        "same_target": lambda: setattr(objs["job"], "server", objs["srv"]),
    }
    acts[case]()
    check_links(ctx, objs, f"after re-pointing {case}")


def h_refused_or_undone(ctx, case):
    """link edits that are refused while being applied (the update puts the previous links back), and dated simulations of
    link changes (the baseline links come back): forward and reverse links still agree, referenced objects still refuse
    deletion"""
    from datetime import timedelta
    from efootprint.abstract_modeling_classes.modeling_update import ModelingUpdate
    spec = M.T9(2)
    objs = M.build(spec, M.Env(ctx, {}))
    first = min(V.utc_key(ts) for ts in objs["up"].utc_hourly_usage_journey_starts.value.index).to_pydatetime()
    acts = {
        "storage_of_another_server": lambda: setattr(objs["srv_alt"], "storage", objs["st"]),
        "storage_of_another_server_grouped": lambda: ModelingUpdate([[objs["job"].data_transferred, SourceValue(3 * u.MB)],
                                                                     [objs["srv_alt"].storage, objs["st"]]]),
        "sim_job_server": lambda: ModelingUpdate([[objs["job"].server, objs["srv_alt"]]], first),
        "sim_step_jobs": lambda: ModelingUpdate([[objs["step"].jobs, [objs["job"], objs["job_alt"]]]], first + timedelta(hours=1)),
        "sim_up_network_toggled": lambda: (lambda s_: (s_.set_updated_values(), s_.reset_values()))(
            ModelingUpdate([[objs["up"].network, objs["net_alt"]]], first)),
    }
    try:
        acts[case]()
        ctx.count("accepted")
    except (PermissionError, ValueError):
        ctx.count("refused")
    check_links(ctx, objs, f"after {case}")
    for n in ("st", "srv", "job", "net", "step"):
        try:
            objs[n].self_delete()
            ctx.require(False, f"after {case}: self_delete of {n} (still referenced) is refused", "it was accepted")
            break
        except PermissionError:
            ctx.require(True, f"after {case}: self_delete of {n} (still referenced) is refused")


def h_delete(ctx, case):
    spec = M.T9(2)
    objs = M.build(spec, M.Env(ctx, {}))
    if case == "referenced":
        for n in ("job", "step", "uj", "srv", "st", "net", "fr", "dev", "up"):
            try:
                objs[n].self_delete()
                ctx.require(False, f"self_delete of {n} (still referenced) is refused", "it was accepted")
            except PermissionError:
                ctx.require(True, f"self_delete of {n} (still referenced) is refused")
            check_links(ctx, objs, f"after refused self_delete of {n}")
    else:
        # unreferenced spare objects can be deleted and are detached from what they pointed to
        for n in ("uj_alt", "step3"):
            o = objs[n]
            o.self_delete()
            rest = {k: v for k, v in objs.items() if k != n}
            byid, fwd, containers = forward_model(rest)
            for k, v in rest.items():
                if isinstance(v, ModelingObject):
                    ctx.require(id(o) not in [id(c) for c in v.modeling_obj_containers], f"deleted {n} no longer referenced by {k}")
            objs = rest
            check_links(ctx, objs, f"after self_delete of {n}")


def h_two_systems(ctx, case):
    spec = M.T9(2)
    objs = M.build(spec, M.Env(ctx, {}))
    spec2 = M.T1(2)
    objs2 = M.build(spec2, M.Env(ctx, {}))
    acts = {
        "system_of_foreign_pattern": lambda: System("third", usage_patterns=[objs["up"]]),
        "append_foreign_pattern": lambda: objs2["system"].usage_patterns.append(objs["up2"]),
        "foreign_server": lambda: setattr(objs2["job"], "server", objs["srv"]),
        "foreign_journey": lambda: setattr(objs2["up"], "usage_journey", objs["uj"]),
        "foreign_network": lambda: setattr(objs2["up"], "network", objs["net"]),
        "foreign_job_in_step": lambda: objs2["step"].jobs.append(objs["job"]),
    }
    try:
        acts[case]()
        raised = False
    except Exception as e:  # noqa
        raised = True
    ctx.require(raised, f"{case}: linking an object of one system into another system is refused")
    check_links(ctx, objs, f"system 1 after {case}")
    check_links(ctx, objs2, f"system 2 after {case}")


HARNESSES = {"list_ops": h_list_ops, "repoint": h_repoint, "delete": h_delete, "two_systems": h_two_systems,
             "refused_or_undone": h_refused_or_undone}
OPS = ["assign", "assign_dup", "assign_same", "append", "insert", "extend", "extend_empty", "iadd", "imul", "pop", "pop_last",
       "remove", "delitem", "setitem", "setslice", "clear"]


def plan(tier, seed):
    rnd = random.Random(seed)
    p = []
    for attr in LISTS:
        for op in OPS:
            for pick in (0, 1):
                p.append(("list_ops", dict(attr=attr, ops=[[op, pick]])))
    for c in ("job.server", "job.server_back", "srv.storage", "up.network", "up.country", "up.usage_journey",
              "up.usage_journey_alt", "same_target"):
        p.append(("repoint", dict(case=c)))
    p += [("delete", dict(case="referenced")), ("delete", dict(case="unreferenced"))]
    for c in ("system_of_foreign_pattern", "append_foreign_pattern", "foreign_server", "foreign_journey", "foreign_network",
              "foreign_job_in_step"):
        p.append(("two_systems", dict(case=c)))
    # every removal followed by every other structural change (stale links show on the second operation)
    removing = ["pop", "pop_last", "delitem", "remove", "setitem", "assign"]
    for attr in LISTS:
        for a in removing:
            for b in removing + ["clear", "append"]:
                p.append(("list_ops", dict(attr=attr, ops=[[a, 0], [b, 1]])))
    pairs = [(a, b) for a in OPS for b in OPS]
    rnd.shuffle(pairs)
    nb = 12 if tier == "quick" else 120
    for attr in LISTS:
        for a, b in pairs[:nb]:
            p.append(("list_ops", dict(attr=attr, ops=[[a, 0], [b, 1]])))
        pairs = pairs[nb:] + pairs[:nb]
    for case in ("storage_of_another_server", "storage_of_another_server_grouped", "sim_job_server", "sim_step_jobs", "sim_up_network_toggled"):
        p.append(("refused_or_undone", dict(case=case)))
    for case in ("job.server", "job.server_back", "up.network", "up.usage_journey"):
        p.append(("repoint", dict(case=case, same_names=True)))
    return p
