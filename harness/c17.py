"""C17 — Service and cloud-server builders are faithful shorthand."""
import csv
import random
import re

from efootprint.abstract_modeling_classes.explainable_objects import EmptyExplainableObject, ExplainableQuantity
from efootprint.abstract_modeling_classes.source_objects import SourceValue, SourceObject
from efootprint.builders.time_builders import create_source_hourly_values_from_list
from efootprint.constants.units import u
from efootprint.core.country import Country
from efootprint.core.hardware.device import Device
from efootprint.core.hardware.gpu_server import GPUServer
from efootprint.core.hardware.network import Network
from efootprint.core.hardware.server import Server
from efootprint.core.hardware.server_base import ServerTypes
from efootprint.core.hardware.storage import Storage
from efootprint.core.system import System
from efootprint.core.usage.job import Job
from efootprint.core.usage.usage_journey import UsageJourney
from efootprint.core.usage.usage_journey_step import UsageJourneyStep
from efootprint.core.usage.usage_pattern import UsagePattern
from harness import model as M, values as V

PROPERTY = "C17"
LEVEL = "model_checking"
BOUNDS = {"hours_per_series": "N=2", "topology": "1 usage pattern, 1 step holding the service job next to a plain job "
          "(or alone), on one Server / GPUServer / BoaviztaCloudServer", "numeric builder parameters": "symbolic",
          "categorical choices": "7 resolutions; ecobenchmark technology x implementation detail (quick: seeded sample of 6, "
          "thorough: all 29 rows); ecologits provider/model (quick: one per parameter-count shape + 3, thorough: all); Boavizta provider/instance "
          "(quick 3, thorough 40 sampled)", "durations": "video duration / GenAI latency bounded to <= 2 h"}
ASSUMPTIONS = ["the plain model carries, as inputs, the parameter values the builder derived, and the service's base "
               "consumption added to the server's", "stated rules: bitrate = w*h*bits_per_pixel*refresh_rate (bits/s), data "
               "transferred = bitrate*duration, compute = cpu cost*bitrate, ram = buffer per user; GenAI latency/RAM/compute "
               "formulas of the class docstrings; web application: ecobenchmark row (read from the CSV by the oracle)",
               "ecologits model parameters are read from the packaged EcoLogits repository and Boavizta instance data by calling the "
               "boaviztapi package directly (the oracle checks how they are *used*, not the data)"]
RESOLUTIONS = ["480p (640 x 480)", "720p (1280 x 720)", "1080p (1920 x 1080)", "1440p (2560 x 1440)", "2K (2048 x 1080)",
               "4K (3840 x 2160)", "8K (7680 x 4320)"]


def sv(ctx_env, slot, default, unit):
    return SourceValue(ctx_env.get(slot, default) * u(ctx_env.unit_of(slot, unit)))


def usage_side(env, jobs, n=2):
    step = UsageJourneyStep("step", sv(env, "step.user_time_spent", 1, "min"), jobs)
    uj = UsageJourney("uj", [step])
    dev = Device.from_defaults("dev")
    net = Network.from_defaults("net")
    fr = Country("fr", "FRA", SourceValue(85 * u.g / u.kWh), M.tz_obj("Europe/Paris"))
    starts = create_source_hourly_values_from_list([env.get(f"up.starts[{i}]", 3) for i in range(n)])
    up = UsagePattern("up", uj, [dev], net, fr, starts)
    return dict(step=step, uj=uj, dev=dev, net=net, fr=fr, up=up)


def make_server(env, kind, name="srv", extra_ram=None, extra_compute=None, from_server=None):
    st = Storage.from_defaults("st")
    if kind == "gpu":
        kw = {p: sv(env, f"{name}.{p}", d, un) for p, d, un in M.PARAMS["gpu_server"]}
        if extra_ram is not None:
            kw["base_ram_consumption"] = SourceValue(kw["base_ram_consumption"].value + extra_ram)
        return GPUServer(name, server_type=ServerTypes.serverless(), storage=st, **kw), st
    kw = {p: sv(env, f"{name}.{p}", d, un) for p, d, un in M.PARAMS["server"]}
    if from_server is not None:
        for p in ("carbon_footprint_fabrication", "power", "ram", "compute"):
            kw[p] = SourceValue(getattr(from_server, p).value)
    if extra_ram is not None:
        kw["base_ram_consumption"] = SourceValue(kw["base_ram_consumption"].value + extra_ram)
    if extra_compute is not None:
        kw["base_compute_consumption"] = SourceValue(kw["base_compute_consumption"].value + extra_compute)
    return Server(name, server_type=ServerTypes.autoscaling(), storage=st, **kw), st


def plain_job_like(sjob, server, name="sjob"):
    return Job(name, server=server, data_transferred=SourceValue(sjob.data_transferred.value),
               data_stored=SourceValue(sjob.data_stored.value), request_duration=SourceValue(sjob.request_duration.value),
               compute_needed=SourceValue(sjob.compute_needed.value), ram_needed=SourceValue(sjob.ram_needed.value))


def _q(x):
    return V.quantity_base(x.value)[1]


def build_pair(ctx, env, kind, choice, mixed, n=2):
    """-> (A objects with the builder, B objects with plain job/server, service job of A)"""
    from efootprint.builders.services.video_streaming import VideoStreaming, VideoStreamingJob
    from efootprint.builders.services.web_application import WebApplication, WebApplicationJob
    from efootprint.builders.services.generative_ai_ecologits import GenAIModel, GenAIJob
    skind = "gpu" if kind == "genai" else "cpu"
    srvA, stA = make_server(env, skind)
    if kind == "video":
        svc = VideoStreaming("svc", srvA, sv(env, "svc.base_ram_consumption", 2, "GB"), sv(env, "svc.bits_per_pixel", 0.125, "dimensionless"),
                             sv(env, "svc.static_delivery_cpu_cost", 4, "cpu_core/(GB/s)"), sv(env, "svc.ram_buffer_per_user", 50, "MB"))
        sjob = VideoStreamingJob("sjob", svc, SourceObject(choice), sv(env, "sjob.video_duration", 1800, "s"),
                                 sv(env, "sjob.refresh_rate", 30, "1/s"), sv(env, "sjob.data_stored", 0, "MB"))
    elif kind == "web":
        tech, impl = choice
        svc = WebApplication("svc", srvA, SourceObject(tech))
        sjob = WebApplicationJob("sjob", svc, sv(env, "sjob.data_transferred", 2.25, "MB"), sv(env, "sjob.data_stored", 100, "kB"),
                                 SourceObject(impl))
    elif kind == "genai":
        prov, model = choice
        svc = GenAIModel("svc", SourceObject(prov), SourceObject(model), srvA, sv(env, "svc.nb_of_bits_per_parameter", 16, "dimensionless"),
                         sv(env, "svc.llm_memory_factor", 1.25, "dimensionless"), sv(env, "svc.gpu_latency_alpha", 8.02e-13, "s"),
                         sv(env, "svc.gpu_latency_beta", 0.0223, "s"), sv(env, "svc.bits_per_token", 24, "dimensionless"))
        sjob = GenAIJob("sjob", svc, sv(env, "sjob.output_token_count", 1000, "dimensionless"))
    else:
        raise ValueError(kind)
    jobsA = [sjob]
    if mixed:
        jobsA.append(Job("pjob", server=srvA, **{p: sv(env, f"pjob.{p}", d, un) for p, d, un in M.PARAMS["job"]}))
    A = dict(srv=srvA, st=stA, svc=svc, sjob=sjob, **usage_side(env, jobsA, n))
    A["system"] = System("system", [A["up"]])
    # plain model: parameters the builder derived, service base consumption added to the server's
    extra_ram = svc.base_ram_consumption.value if not isinstance(svc.base_ram_consumption, EmptyExplainableObject) else None
    extra_cpu = svc.base_compute_consumption.value if not isinstance(svc.base_compute_consumption, EmptyExplainableObject) else None
    srvB, stB = make_server(env, skind, extra_ram=extra_ram, extra_compute=extra_cpu)
    jobsB = [plain_job_like(sjob, srvB)] if skind == "cpu" else [_plain_gpu_job(sjob, srvB)]
    if mixed:
        jobsB.append(Job("pjob", server=srvB, **{p: sv(env, f"pjob.{p}", d, un) for p, d, un in M.PARAMS["job"]}))
    B = dict(srv=srvB, st=stB, **usage_side(env, jobsB, n))
    B["system"] = System("system", [B["up"]])
    return A, B


def builder_system(ctx, env, kind, choice):
    """objects of a small system made with a builder class: kind in video / web / genai (service + service job, mixed with a
    plain job where the server allows it) or cloud (BoaviztaCloudServer with a plain job)"""
    if kind == "cloud":
        from efootprint.builders.hardware.boavizta_cloud_server import BoaviztaCloudServer
        st = Storage.from_defaults("st")
        srv = BoaviztaCloudServer.from_defaults("srv", provider=SourceObject(choice[0]), instance_type=SourceObject(choice[1]),
                                                server_type=ServerTypes.autoscaling(), storage=st)
        job = Job("pjob", server=srv, **{p: sv(env, f"pjob.{p}", d, un) for p, d, un in M.PARAMS["job"]})
        A = dict(srv=srv, st=st, pjob=job, **usage_side(env, [job]))
        A["system"] = System("system", [A["up"]])
        return A
    A, _B = build_pair(ctx, env, kind, choice, mixed=(kind != "genai"))
    for j in A["step"].jobs:
        if j.name == "pjob":
            A["pjob"] = j
    if kind == "genai":
        ctx.assume(V.quantity_base(A["sjob"].request_duration.value)[1] <= 7200)
    return A


BUILDER_CASES = [("video", "1080p (1920 x 1080)"), ("web", ["php-symfony", "default"]), ("genai", ["mistralai", "open-mistral-7b"]),
                 ("cloud", ["scaleway", "ent1-s"])]
BUILDER_EDITS = {"video": ("sjob", "refresh_rate", "1/s", (1, 240, (24, 60))), "web": ("sjob", "data_transferred", "MB", (0, 10 ** 4, (1, 10))),
                 "genai": ("sjob", "output_token_count", "dimensionless", (1, 10 ** 5, (100, 5000))),
                 "cloud": ("pjob", "ram_needed", "MB", (0, 10 ** 4, (10, 500)))}


def builder_env(ctx, kind):
    if kind == "cloud":
        return M.Env(ctx, symbolic={f"up.starts[{i}]": dict(lo=0, hi=1000, nice=(1, 40)) for i in range(2)} |
                     {"pjob.ram_needed": dict(lo=0, hi=10 ** 4, nice=(10, 500)), "pjob.data_transferred": dict(lo=0, hi=10 ** 4, nice=(10, 500))})
    return M.Env(ctx, symbolic=sym_for(kind))


def _plain_gpu_job(sjob, server):
    from efootprint.core.usage.job import JobBase

    class GPUJob(Job):
        """plain job on a GPU server (Job's annotation wants a Server; the check is by annotation only)"""
        def __init__(self, name: str, server: GPUServer, data_transferred: ExplainableQuantity, data_stored: ExplainableQuantity,
                     request_duration: ExplainableQuantity, compute_needed: ExplainableQuantity, ram_needed: ExplainableQuantity):
            JobBase.__init__(self, name, data_transferred, data_stored, request_duration, compute_needed, ram_needed)
            from efootprint.abstract_modeling_classes.contextual_modeling_object_attribute import ContextualModelingObjectAttribute
            self.server = ContextualModelingObjectAttribute(server)

        @classmethod
        def default_values(cls):
            return {"data_transferred": SourceValue(150 * u.kB), "data_stored": SourceValue(100 * u.kB),
                    "request_duration": SourceValue(1 * u.s), "compute_needed": SourceValue(1 * u.gpu),
                    "ram_needed": SourceValue(50 * u.MB)}
    return GPUJob("sjob", server, SourceValue(sjob.data_transferred.value), SourceValue(sjob.data_stored.value),
                  SourceValue(sjob.request_duration.value), SourceValue(sjob.compute_needed.value), SourceValue(sjob.ram_needed.value))


def sym_for(kind):
    s = {f"up.starts[{i}]": dict(lo=0, hi=1000, nice=(1, 40)) for i in range(2)}
    if kind == "video":
        s.update({"svc.base_ram_consumption": dict(lo=0, hi=64, nice=(1, 8)), "svc.bits_per_pixel": dict(lo=0, hi=10, nice=(0.05, 0.5)),
                  "svc.static_delivery_cpu_cost": dict(lo=0, hi=100, nice=(1, 8)), "svc.ram_buffer_per_user": dict(lo=0, hi=10 ** 4, nice=(10, 100)),
                  "sjob.video_duration": dict(lo=0, lo_strict=True, hi=7200, nice=(60, 7000)),
                  "sjob.refresh_rate": dict(lo=0, hi=240, nice=(24, 60)), "sjob.data_stored": dict(lo=0, hi=10 ** 4, nice=(0, 10))})
    elif kind == "web":
        s.update({"sjob.data_transferred": dict(lo=0, hi=10 ** 4, nice=(1, 10)), "sjob.data_stored": dict(lo=0, hi=10 ** 6, nice=(1, 500))})
    elif kind == "genai":
        s.update({"svc.nb_of_bits_per_parameter": dict(lo=1, hi=64, nice=(8, 32)), "svc.llm_memory_factor": dict(lo=1, hi=4, nice=(1, 2)),
                  "svc.bits_per_token": dict(lo=1, hi=128, nice=(8, 32)),
                  "sjob.output_token_count": dict(lo=1, hi=10 ** 5, nice=(100, 5000)),
                  "srv.ram_per_gpu": dict(lo=1, hi=1000, nice=(40, 160))})
    return s


def check_rules(ctx, env, kind, choice, A):
    sjob, svc, srv = A["sjob"], A["svc"], A["srv"]
    g = lambda slot, d: env.get(slot, d)  # noqa
    if kind == "video":
        w, h = map(int, re.search(r"\((\d+)\s*x\s*(\d+)\)", choice).groups())
        bitrate_bits = w * h * g("svc.bits_per_pixel", 0.125) * g("sjob.refresh_rate", 30)          # bit/s
        ctx.eq(_q(sjob.dynamic_bitrate), bitrate_bits, "rule: bitrate = pixels x bits per pixel x frame rate")
        ctx.eq(_q(sjob.data_transferred), bitrate_bits * g("sjob.video_duration", 1800), "rule: data transferred = bitrate x duration")
        ctx.eq(_q(sjob.request_duration), g("sjob.video_duration", 1800), "rule: request duration = video duration")
        # cpu cost is in cpu_core per (GB/s): bitrate in GB/s = bits/s / 8e9
        ctx.eq(_q(sjob.compute_needed), g("svc.static_delivery_cpu_cost", 4) * bitrate_bits / (8 * 10 ** 9), "rule: compute = cpu cost x bitrate")
        ctx.eq(_q(sjob.ram_needed), g("svc.ram_buffer_per_user", 50) * 8 * 10 ** 6, "rule: RAM = buffer per user")
    elif kind == "web":
        from efootprint.builders.services.ecobenchmark_analysis.ecobenchmark_data_analysis import ECOBENCHMARK_DATA
        rows = [r for r in csv.DictReader(open(ECOBENCHMARK_DATA)) if r["service"] == choice[0] and r["use_case"] == choice[1]]
        ctx.require(len(rows) >= 1, "rule: ecobenchmark row exists")
        ctx.eq(_q(sjob.compute_needed), float(rows[0]["avg_cpu_core_per_request"]), "rule: compute = ecobenchmark cpu per request")
        ctx.eq(_q(sjob.ram_needed), float(rows[0]["avg_ram_per_request_in_MB"]) * 8 * 10 ** 6, "rule: RAM = ecobenchmark RAM per request")
        ctx.eq(_q(sjob.request_duration), 1, "rule: default request duration")
    elif kind == "genai":
        from ecologits.model_repository import models
        m = models.find_model(provider=choice[0], model_name=choice[1])
        par = m.architecture.parameters

        def mid(x):
            return (x.min + x.max) / 2 if hasattr(x, "min") else x
        if isinstance(par, (int, float)) or hasattr(par, "min"):
            act = tot = mid(par)
        else:
            act, tot = mid(par.active), mid(par.total)
        act, tot = act * 10 ** 9, tot * 10 ** 9
        cnt, bpt = g("sjob.output_token_count", 1000), g("svc.bits_per_token", 24)
        ctx.eq(_q(sjob.output_token_weights), cnt * bpt, "rule: token weights = tokens x bits per token")
        ctx.eq(_q(sjob.data_transferred), 100 * 8000 + cnt * bpt, "rule: data transferred = 100 kB + token weights")
        ctx.eq(_q(sjob.data_stored), 100 * 8000 + cnt * bpt, "rule: data stored = 100 kB + token weights")
        ctx.eq(_q(sjob.request_duration), cnt * (g("svc.gpu_latency_alpha", 8.02e-13) * act + g("svc.gpu_latency_beta", 0.0223)),
               "rule: latency = tokens x (alpha x active params + beta)")
        f, b = g("svc.llm_memory_factor", 1.25), g("svc.nb_of_bits_per_parameter", 16)
        ctx.eq(_q(svc.base_ram_consumption), f * tot * b, "rule: model RAM = factor x total params x bits per param")
        ctx.eq(_q(sjob.compute_needed), f * act * b / (g("srv.ram_per_gpu", 80) * 8 * 10 ** 9), "rule: GPUs = factor x active params x bits / RAM per GPU")


def h_service(ctx, kind, choice, mixed=True, edit=None):
    env = M.Env(ctx, symbolic=sym_for(kind))
    A, B = build_pair(ctx, env, kind, choice, mixed)
    if kind == "genai":
        ctx.assume(V.quantity_base(A["sjob"].request_duration.value)[1] <= 7200)
    V.observe_system(ctx, A, "A.")
    V.observe_system(ctx, B, "B.")
    check_rules(ctx, env, kind, choice, A)
    V.compare_systems(ctx, A, B, "builder model = plain model", names={"srv", "st", "net", "up", "system"})
    if edit:
        # a builder input is edited on the live system: derived parameters and footprints equal a fresh build
        slot, unit = edit
        new = env.fresh("new." + slot, **sym_for(kind)[slot])
        ctx.assume(new != env.get(slot, None))
        owner, attr = slot.split(".")
        setattr(A[owner], attr, SourceValue(new * u(unit)))
        env2 = env.child(values={slot: new})
        A2, B2 = build_pair(ctx, env2, kind, choice, mixed)
        check_rules(ctx, env2, kind, choice, A)
        V.compare_systems(ctx, A, A2, f"after editing {slot}: live builder model = fresh builder model",
                          names={"srv", "st", "net", "up", "system", "sjob", "svc"})


def h_categorical_edit(ctx, kind, choice, new_choice):
    """a categorical builder input is edited on the live system"""
    env = M.Env(ctx, symbolic=sym_for(kind))
    A, B = build_pair(ctx, env, kind, choice, True)
    if kind == "video":
        A["sjob"].resolution = SourceObject(new_choice)
    elif kind == "web":
        A["sjob"].implementation_details = SourceObject(new_choice[1])
        if new_choice[0] != choice[0]:
            A["svc"].technology = SourceObject(new_choice[0])
    A2, B2 = build_pair(ctx, env, kind, new_choice, True)
    check_rules(ctx, env, kind, new_choice, A)
    V.compare_systems(ctx, A, A2, f"after switching to {new_choice}: live builder model = fresh builder model",
                      names={"srv", "st", "net", "up", "system", "sjob"})
    V.observe_system(ctx, A, "A.")


def h_idle_service(ctx, kind, choice):
    """a service installed on a server but not (or no longer) called by any job still reserves its base consumption: the
    model equals the plain model whose server base RAM/compute include the service's"""
    from efootprint.builders.services.video_streaming import VideoStreaming
    from efootprint.builders.services.generative_ai_ecologits import GenAIModel
    sym = {f"up.starts[{i}]": dict(lo=0, hi=1000, nice=(1, 40)) for i in range(2)}
    sym.update({"svc.base_ram_consumption": dict(lo=0, hi=64, nice=(1, 8)), "pjob.ram_needed": dict(lo=0, hi=10 ** 5, nice=(100, 5000))})
    env = M.Env(ctx, symbolic=sym)
    skind = "gpu" if kind == "genai" else "cpu"
    srvA, stA = make_server(env, skind)
    if kind == "video":
        svc = VideoStreaming("svc", srvA, sv(env, "svc.base_ram_consumption", 2, "GB"), sv(env, "svc.bits_per_pixel", 0.125, "dimensionless"),
                             sv(env, "svc.static_delivery_cpu_cost", 4, "cpu_core/(GB/s)"), sv(env, "svc.ram_buffer_per_user", 50, "MB"))
    else:
        svc = GenAIModel("svc", SourceObject(choice[0]), SourceObject(choice[1]), srvA, sv(env, "svc.nb_of_bits_per_parameter", 16, "dimensionless"),
                         sv(env, "svc.llm_memory_factor", 1.25, "dimensionless"), sv(env, "svc.gpu_latency_alpha", 8.02e-13, "s"),
                         sv(env, "svc.gpu_latency_beta", 0.0223, "s"), sv(env, "svc.bits_per_token", 24, "dimensionless"))

    def pjob(server):
        if skind == "cpu":
            return Job("pjob", server=server, **{p: sv(env, f"pjob.{p}", d, un) for p, d, un in M.PARAMS["job"]})
        from types import SimpleNamespace
        ref = SimpleNamespace(**{p: SourceValue(env.get(f"pjob.{p}", d) * u(un if p != "compute_needed" else "gpu"))
                                 for p, d, un in M.PARAMS["job"]})
        return _plain_gpu_job(ref, server)
    A = dict(srv=srvA, st=stA, svc=svc, **usage_side(env, [pjob(srvA)]))
    A["system"] = System("system", [A["up"]])
    extra_ram = svc.base_ram_consumption.value if not isinstance(svc.base_ram_consumption, EmptyExplainableObject) else None
    extra_cpu = svc.base_compute_consumption.value if not isinstance(svc.base_compute_consumption, EmptyExplainableObject) else None
    srvB, stB = make_server(env, skind, extra_ram=extra_ram, extra_compute=extra_cpu)
    B = dict(srv=srvB, st=stB, **usage_side(env, [pjob(srvB)]))
    B["system"] = System("system", [B["up"]])
    V.observe_system(ctx, A, "A.")
    V.observe_system(ctx, B, "B.")
    V.compare_systems(ctx, A, B, "installed but idle service = plain server carrying its base consumption", names={"srv", "st", "net", "up", "system"})


def h_service_relink(ctx, kind):
    """a service job moved to another service of the same class (other inputs) gets the parameters derived from its new
    service: the live model equals the model in which the job was created on that service"""
    from efootprint.builders.services.video_streaming import VideoStreaming, VideoStreamingJob
    from efootprint.builders.services.web_application import WebApplication, WebApplicationJob
    sym = {f"up.starts[{i}]": dict(lo=0, hi=1000, nice=(1, 40)) for i in range(2)}
    if kind == "video":
        sym.update({"svcB.bits_per_pixel": dict(lo=0, lo_strict=True, hi=10, nice=(0.05, 0.5)), "svcB.ram_buffer_per_user": dict(lo=0, hi=10 ** 4, nice=(10, 100)),
                    "svcB.static_delivery_cpu_cost": dict(lo=0, hi=100, nice=(1, 8))})
    env = M.Env(ctx, symbolic=sym)

    def model(on):
        srv, st = make_server(env, "cpu")
        if kind == "video":
            mk = lambda nm: VideoStreaming(nm, srv, sv(env, f"{nm}.base_ram_consumption", 2, "GB"), sv(env, f"{nm}.bits_per_pixel", 0.125, "dimensionless"),  # noqa
                                           sv(env, f"{nm}.static_delivery_cpu_cost", 4, "cpu_core/(GB/s)"), sv(env, f"{nm}.ram_buffer_per_user", 50, "MB"))
            a, b = mk("svcA"), mk("svcB")
            job = VideoStreamingJob("sjob", a if on == "A" else b, SourceObject(RESOLUTIONS[2]), sv(env, "sjob.video_duration", 1800, "s"),
                                    sv(env, "sjob.refresh_rate", 30, "1/s"), sv(env, "sjob.data_stored", 0, "MB"))
        else:
            a, b = WebApplication("svcA", srv, SourceObject("php-symfony")), WebApplication("svcB", srv, SourceObject("go-pgx"))
            job = WebApplicationJob("sjob", a if on == "A" else b, sv(env, "sjob.data_transferred", 2.25, "MB"), sv(env, "sjob.data_stored", 100, "kB"),
                                    SourceObject("default"))
        o = dict(srv=srv, st=st, svcA=a, svcB=b, sjob=job, **usage_side(env, [job]))
        o["system"] = System("system", [o["up"]])
        return o
    live = model("A")
    V.observe_system(ctx, live, "A.")
    live["sjob"].service = live["svcB"]
    fresh = model("B")
    V.compare_systems(ctx, live, fresh, f"{kind}: job moved to another service = job created on that service",
                      names={"srv", "st", "net", "up", "system", "sjob"})


def h_cloud(ctx, provider, instance_type, edit_instance=None):
    from efootprint.builders.hardware.boavizta_cloud_server import BoaviztaCloudServer
    env = M.Env(ctx, symbolic={f"up.starts[{i}]": dict(lo=0, hi=1000, nice=(1, 40)) for i in range(2)} |
                {"srv.power_usage_effectiveness": dict(lo=1, hi=3, nice=(1, 2)), "srv.lifespan": dict(lo=0.1, hi=20, nice=(1, 10)),
                 "pjob.ram_needed": dict(lo=0, hi=10 ** 4, nice=(10, 500))})
    common = dict(lifespan=lambda: sv(env, "srv.lifespan", 6, "year"), idle_power=lambda: SourceValue(0 * u.W),
                  power_usage_effectiveness=lambda: sv(env, "srv.power_usage_effectiveness", 1.25, "dimensionless"),
                  average_carbon_intensity=lambda: SourceValue(100 * u.g / u.kWh),
                  server_utilization_rate=lambda: SourceValue(0.875 * u.dimensionless),
                  base_ram_consumption=lambda: SourceValue(0.5 * u.GB), base_compute_consumption=lambda: SourceValue(0.25 * u.cpu_core))

    def builder_model(itype):
        st = Storage.from_defaults("st")
        srv = BoaviztaCloudServer("srv", SourceObject(provider), SourceObject(itype), ServerTypes.autoscaling(),
                                  storage=st, **{k: f() for k, f in common.items()})
        job = Job("pjob", server=srv, **{p: sv(env, f"pjob.{p}", d, un) for p, d, un in M.PARAMS["job"]})
        o = dict(srv=srv, st=st, **usage_side(env, [job]))
        o["system"] = System("system", [o["up"]])
        return o
    A = builder_model(instance_type)
    V.observe_system(ctx, A, "A.")

    def oracle(itype):
        """derived server parameters straight from the boaviztapi package (not through e-footprint)"""
        import asyncio
        from boaviztapi.routers.cloud_router import instance_cloud_impact
        r = asyncio.run(instance_cloud_impact(provider=provider, instance_type=itype, criteria=["gwp"]))
        ctx.require(r["verbose"]["avg_power"]["unit"] == "W" and r["verbose"]["memory"]["unit"] == "GB", "oracle: Boavizta units are W and GB")
        return dict(fab=float(r["impacts"]["gwp"]["embedded"]["value"]), power=float(r["verbose"]["avg_power"]["value"]),
                    ram=float(r["verbose"]["memory"]["value"]), compute=float(r["verbose"]["vcpu"]["value"]))

    def plain_model(ora):
        st = Storage.from_defaults("st")
        srv = Server("srv", ServerTypes.autoscaling(), SourceValue(ora["fab"] * u.kg), SourceValue(ora["power"] * u.W),
                     common["lifespan"](), common["idle_power"](), SourceValue(ora["ram"] * u.GB), SourceValue(ora["compute"] * u.cpu_core),
                     common["power_usage_effectiveness"](), common["average_carbon_intensity"](), common["server_utilization_rate"](),
                     common["base_ram_consumption"](), common["base_compute_consumption"](), st)
        job = Job("pjob", server=srv, **{p: sv(env, f"pjob.{p}", d, un) for p, d, un in M.PARAMS["job"]})
        o = dict(srv=srv, st=st, **usage_side(env, [job]))
        o["system"] = System("system", [o["up"]])
        return o

    def rules(ora, when):
        ctx.eq(_q(A["srv"].power), ora["power"], f"rule{when}: power = Boavizta average power")
        ctx.eq(_q(A["srv"].ram), ora["ram"] * 8 * 10 ** 9, f"rule{when}: RAM = Boavizta memory")
        ctx.eq(_q(A["srv"].compute), ora["compute"], f"rule{when}: compute = Boavizta vcpu")
        ctx.eq(_q(A["srv"].carbon_footprint_fabrication), ora["fab"], f"rule{when}: fabrication = Boavizta embedded gwp")
    # derived parameters are calculated attributes of the builder and inputs of the plain server: compared by `rules`
    skip = {"srv.api_call_response", "srv.carbon_footprint_fabrication", "srv.power", "srv.ram", "srv.compute"}
    ora = oracle(instance_type)
    rules(ora, "")
    V.compare_systems(ctx, A, plain_model(ora), "cloud-instance model = plain server model", names={"srv", "st", "net", "up", "system"}, skip=skip)
    if edit_instance:
        A["srv"].instance_type = SourceObject(edit_instance)
        ora2 = oracle(edit_instance)
        rules(ora2, f" after switching to {edit_instance}")
        V.compare_systems(ctx, A, plain_model(ora2), f"after switching instance type to {edit_instance}: live = plain server model",
                          names={"srv", "st", "net", "up", "system"}, skip=skip)
        A2 = builder_model(edit_instance)
        V.compare_systems(ctx, A, A2, f"after switching instance type to {edit_instance}: live = fresh",
                          names={"srv", "st", "net", "up", "system"}, skip={"srv.api_call_response"})


HARNESSES = {"service": h_service, "categorical_edit": h_categorical_edit, "cloud": h_cloud, "idle_service": h_idle_service, "service_relink": h_service_relink}


def plan(tier, seed):
    rnd = random.Random(seed)
    p = []
    for r in RESOLUTIONS:
        p.append(("service", dict(kind="video", choice=r, mixed=(r != RESOLUTIONS[0]))))
    p.append(("service", dict(kind="video", choice=RESOLUTIONS[2], mixed=True, edit=["svc.bits_per_pixel", "dimensionless"])))
    p.append(("service", dict(kind="video", choice=RESOLUTIONS[1], mixed=True, edit=["sjob.refresh_rate", "1/s"])))
    p.append(("service", dict(kind="video", choice=RESOLUTIONS[5], mixed=False, edit=["svc.base_ram_consumption", "GB"])))
    p.append(("service", dict(kind="video", choice=RESOLUTIONS[3], mixed=True, edit=["svc.ram_buffer_per_user", "MB"])))
    p.append(("categorical_edit", dict(kind="video", choice=RESOLUTIONS[1], new_choice=RESOLUTIONS[5])))
    p.append(("categorical_edit", dict(kind="video", choice=RESOLUTIONS[6], new_choice=RESOLUTIONS[0])))
    from efootprint.builders.services.ecobenchmark_analysis.ecobenchmark_data_analysis import ECOBENCHMARK_DATA
    rows = [(r["service"], r["use_case"]) for r in csv.DictReader(open(ECOBENCHMARK_DATA))]
    rnd.shuffle(rows)
    for c in (rows if tier == "thorough" else rows[:6]):
        p.append(("service", dict(kind="web", choice=list(c), mixed=True)))
    p.append(("service", dict(kind="web", choice=list(rows[0]), mixed=False, edit=["sjob.data_transferred", "MB"])))
    same_tech = [r for r in rows if r[0] == rows[0][0] and r != rows[0]]
    if same_tech:
        p.append(("categorical_edit", dict(kind="web", choice=list(rows[0]), new_choice=list(same_tech[0]))))
    from ecologits.model_repository import models
    ms = [(m.provider.name, m.name) for m in models.list_models()]
    rnd.shuffle(ms)
    # one representative of every shape the repository gives a parameter count in (dense / mixture of experts, each as a
    # number or as a range), then a sample (thorough: every model)
    shapes = {}
    for m in sorted(models.list_models(), key=lambda m: (m.provider.name, m.name)):
        par = m.architecture.parameters
        shape = ("dense", hasattr(par, "min")) if (isinstance(par, (int, float)) or hasattr(par, "min")) else \
            ("moe", hasattr(par.active, "min"), hasattr(par.total, "min"))
        shapes.setdefault(shape, (m.provider.name, m.name))
    chosen = [("mistralai", "open-mistral-7b")] + list(shapes.values()) + (ms if tier == "thorough" else ms[:3])
    for c in dict.fromkeys(chosen):
        p.append(("service", dict(kind="genai", choice=list(c), mixed=False)))
    p.append(("service", dict(kind="genai", choice=["mistralai", "open-mistral-7b"], mixed=False, edit=["sjob.output_token_count", "dimensionless"])))
    p.append(("service", dict(kind="genai", choice=["mistralai", "open-mistral-7b"], mixed=False, edit=["svc.nb_of_bits_per_parameter", "dimensionless"])))
    from efootprint.builders.hardware.boavizta_cloud_server import instance_types_conditional_list_values_dict
    d = instance_types_conditional_list_values_dict["conditional_list_values"]
    inst = [(k.value, x.value) for k, v in d.items() for x in v]
    rnd.shuffle(inst)
    for prov, it in ([("scaleway", "ent1-s")] + inst[:(40 if tier == "thorough" else 3)]):
        p.append(("cloud", dict(provider=prov, instance_type=it)))
    p.append(("cloud", dict(provider="scaleway", instance_type="ent1-s", edit_instance="ent1-m")))
    p.append(("cloud", dict(provider="scaleway", instance_type="dev1-s", edit_instance="ent1-l")))
    p.append(("service_relink", dict(kind="video")))
    p.append(("service_relink", dict(kind="web")))
    p.append(("idle_service", dict(kind="video", choice=None)))
    p.append(("idle_service", dict(kind="genai", choice=["mistralai", "open-mistral-7b"])))
    return p
