"""C18 — A computed model is a fixed point and computing never alters inputs."""
import itertools
import random

from efootprint.abstract_modeling_classes.modeling_object import ModelingObject
from efootprint.api_utils.system_to_json import system_to_json
from harness import model as M, values as V, snap as S, edits as E
from harness.common import traffic_syms, gt_sets, sym_slots
from harness.c01 import resolve, collect_slots, num

PROPERTY = "C18"
LEVEL = "model_checking"
BOUNDS = {"hours_per_series": "N=2", "skeletons": "T1,T2,T3,T4,T5,T7,T9,TX; builder systems (video, web, generative AI, cloud instance)", "recomputation requests": "each object alone; each update function alone; every "
          "ordered pair of objects (T1, T3 sample); the full chain; System.after_init() again; after a depth-1 edit or one update carrying 2-3 changes",
          "inputs": "every numeric input compared with the value given, after computing and after recomputing (durations symbolic, not whole hours)",
          "reads": "explain(), str(), to_json, system_to_json (with/without calculated attributes), the *_sum_over_period "
                   "and total_* views"}
ASSUMPTIONS = ["plotting: the matplotlib plots of hourly values are exercised on fully concrete systems (no symbolic input can cross the C float boundary of matplotlib); the plotly/HTML views of System are outside the encoding", "physical comparison: an in-place "
               "unit conversion is not a change"]


def _sym(spec):
    sym = traffic_syms(spec)
    sym.update(sym_slots(spec, [("jobs", "data_transferred", 0, 10 ** 6, (1, 900)), ("jobs", "data_stored", 0, 10 ** 6, (1, 900)),
                                ("jobs", "ram_needed", 0, 10 ** 5, (1, 900)),
                                ("servers", "base_ram_consumption", 0, 16, (1, 8)),
                                ("servers", "base_compute_consumption", 0, 2, (0.5, 2)),
                                ("storages", "base_storage_need", 0, 100, (0.1, 1)),
                                ("storages", "idle_power", 0, 10, (0.1, 2)),
                                ("devices", "power", 0, 1000, (1, 100))]))
    return sym


def check_inputs(ctx, spec, env, objs, label):
    """every numeric input still has the physical value the model was given"""
    from harness.c10 import slots_of
    n = 0
    for (slot, param, default, un) in slots_of(spec):
        name = slot.split(".")[0]
        given = env.get(slot, default)
        unit = env.unit_of(slot, un)
        f = V.base_factor(M.u(unit).units)[0]
        got = V.quantity_base(getattr(objs[name], param).value)[1]
        ctx.eq(got, given * f, f"{label}: input {slot} keeps its physical value")
        n += 1
    ctx.require(n > 0, f"{label}: inputs were compared")


def h_fixed_point(ctx, skeleton, mode, n=2, args=None, edit=None, pair_sample=None, values=None):
    """values: concrete overrides for the initial build (boundary states such as a journey of duration zero, from which
    an edit then leaves)"""
    spec = M.SKELETONS[skeleton](n, **(args or {}))
    sym = {k: v for k, v in _sym(spec).items() if k not in (values or {})}
    if mode == "inputs":
        # durations that are not whole hours / minutes, so that rounding steps inside the computation have something to do
        from fractions import Fraction as F
        sym.update(sym_slots(spec, [("storages", "data_storage_duration", 0, F(3, 8766), (F(1, 8766), F(2, 8766))),
                                    ("jobs", "request_duration", 0, 7200, (1, 5000)),
                                    ("steps", "user_time_spent", 0, 119, (1, 100)),
                                    ("devices", "lifespan", 0, 100, (1, 10)),
                                    ("servers", "lifespan", 0, 100, (1, 10))], strict_lo=("data_storage_duration", "request_duration", "lifespan")))
    if edit:
        sym.update(collect_slots(spec, [edit]))
    env = M.Env(ctx, symbolic={k: v for k, v in sym.items() if k not in (values or {})}, values=dict(values or {}))
    objs = M.build(spec, env)
    if edit:
        e = resolve(ctx, env, env, spec, edit, 0)
        spec, env = E.apply(objs, spec, env, e)
    V.observe_system(ctx, objs)
    gt = gt_sets(spec)
    names = [x for x in (gt["steps"] + gt["journeys"] + gt["devices"] + gt["countries"] + gt["patterns"] + gt["jobs"]
                         + gt["networks"] + gt["servers"] + gt["storages"] + ["system"])]
    live = {k: v for k, v in objs.items() if k in names}
    s0 = S.snapshot(live)

    def check(label):
        # initial_total_* is the reference recorded by after_init (book-keeping, re-recorded on purpose), not a result
        S.compare_snapshots(ctx, s0, S.snapshot(live), label, identity=False, values=True, graph=False,
                            skip_attrs=("initial_total_energy_footprints_sum_over_period",
                                        "initial_total_fabrication_footprints_sum_over_period"))

    if mode == "inputs":
        check_inputs(ctx, spec, env, objs, "after computing the system")
        for nm in names:
            objs[nm].compute_calculated_attributes()
        check_inputs(ctx, spec, env, objs, "after recomputing every object")
        check("after recomputing every object")
    elif mode == "attrs":
        # every update function alone ("every subset of explicit recomputation requests", at attribute granularity)
        for nm in names:
            o = objs[nm]
            for attr in o.calculated_attributes:
                getattr(o, f"update_{attr}")()
                check(f"after recomputing {nm}.{attr} alone")
    elif mode == "each":
        for nm in names:
            objs[nm].compute_calculated_attributes()
            check(f"after recomputing {nm} alone")
    elif mode == "pairs":
        pairs = list(itertools.permutations(names, 2))
        if pair_sample:
            rnd = random.Random(pair_sample)
            rnd.shuffle(pairs)
            pairs = pairs[:24]
        for a, b in pairs:
            objs[a].compute_calculated_attributes()
            objs[b].compute_calculated_attributes()
            check(f"after recomputing {a} then {b}")
    elif mode == "chain":
        system = objs["system"]
        chain = system.mod_objs_computation_chain[1:]
        ModelingObject.launch_mod_objs_computation_chain(chain)
        system.compute_calculated_attributes()
        check("after the full chain again")
        system.after_init()
        check("after System.after_init() again")
        for o in reversed(chain):
            o.compute_calculated_attributes()
        check("after the chain in reverse order")
    elif mode == "reads":
        system = objs["system"]
        for nm in names:
            o = objs[nm]
            str(o)
            for attr in o.calculated_attributes:
                v = getattr(o, attr)
                vals = list(v.values()) if isinstance(v, dict) else [v]
                for val in vals:
                    str(val)
                    val.explain()
            o.to_json(save_calculated_attributes=True)
        check("after str()/explain()/to_json on everything")
        for f in (lambda: system.total_energy_footprint_sum_over_period, lambda: system.total_fabrication_footprint_sum_over_period,
                  lambda: system.energy_footprint_sum_over_period, lambda: system.fabrication_footprint_sum_over_period,
                  lambda: system.total_energy_footprints, lambda: system.total_fabrication_footprints):
            f()
        check("after reading the aggregate views")
        system_to_json(system, save_calculated_attributes=False)
        system_to_json(system, save_calculated_attributes=True)
        check("after system_to_json")
    else:
        raise ValueError(mode)


def h_fixed_point_builders(ctx, kind, choice, mode):
    """systems made with the builder classes: recomputing an object / one update function / reading changes nothing"""
    from harness import c17
    env = c17.builder_env(ctx, kind)
    A = c17.builder_system(ctx, env, kind, choice)
    V.observe_system(ctx, A)
    live = {k: v for k, v in A.items() if isinstance(v, ModelingObject)}
    s0 = S.snapshot(live)

    def check(label):
        S.compare_snapshots(ctx, s0, S.snapshot(live), label, identity=False, values=True, graph=False,
                            skip_attrs=("initial_total_energy_footprints_sum_over_period",
                                        "initial_total_fabrication_footprints_sum_over_period"))
    for nm, o in live.items():
        if mode == "each":
            o.compute_calculated_attributes()
            check(f"after recomputing {nm} alone")
        elif mode == "attrs":
            for attr in o.calculated_attributes:
                getattr(o, f"update_{attr}")()
                check(f"after recomputing {nm}.{attr} alone")
        else:
            str(o)
            for attr in o.calculated_attributes:
                v = getattr(o, attr)
                for val in (list(v.values()) if isinstance(v, dict) else [v]):
                    str(val)
                    val.explain()
            o.to_json(save_calculated_attributes=True)
    if mode == "reads":
        system_to_json(A["system"], save_calculated_attributes=True)
        check("after str()/explain()/to_json/system_to_json on everything")


def h_plots(ctx, skeleton, n=4, with_simulation=True):
    """plotting (matplotlib, headless) never changes a value: every hourly calculated attribute is plotted, plain and
    cumulative, without and with a dated simulation (baseline and simulated twins).  All inputs are concrete: the
    matplotlib layer converts values to C floats, which a symbolic value cannot go through."""
    import os
    os.environ.setdefault("MPLBACKEND", "Agg")
    import matplotlib
    matplotlib.use("Agg", force=True)
    import matplotlib.pyplot as plt
    from datetime import timedelta
    from efootprint.abstract_modeling_classes.explainable_objects import ExplainableHourlyQuantities
    from efootprint.abstract_modeling_classes.modeling_update import ModelingUpdate
    from efootprint.abstract_modeling_classes.source_objects import SourceValue
    from efootprint.constants.units import u
    spec = M.SKELETONS[skeleton](n)
    env = M.Env(ctx)
    objs = M.build(spec, env)
    gt = gt_sets(spec)
    names = [x for x in (gt["patterns"] + gt["jobs"] + gt["networks"] + gt["servers"] + gt["storages"] + ["system"])]
    live = {k: v for k, v in objs.items() if k in names}

    def hourly_values():
        out = []
        for nm in names:
            o = objs[nm]
            for attr in o.calculated_attributes:
                v = getattr(o, attr)
                for key, val in (list(v.items()) if isinstance(v, dict) else [(None, v)]):
                    if isinstance(val, ExplainableHourlyQuantities):
                        out.append((f"{nm}.{attr}" + (f"[{getattr(key, 'name', key)}]" if key is not None else ""), val))
        return out

    def cells(val):
        # physical values (an in-place unit conversion by a plot is not a change)
        return [float(x) for _, x in sorted(V.phys(val)[1].items(), key=lambda kv: str(kv[0]))]
    s0 = S.snapshot(live)
    sim = None
    if with_simulation:
        first = min(V.utc_key(ts) for ts in objs["up"].utc_hourly_usage_journey_starts.value.index)
        sim = ModelingUpdate([[objs["srv"].power, SourceValue(450 * u.W)], [objs["job"].data_transferred, SourceValue(3 * u.MB)]],
                             (first + timedelta(hours=1)).to_pydatetime())
    twins = [(w, v, cells(v.simulation_twin)) for w, v in hourly_values()
             if getattr(v, "simulation_twin", None) is not None and isinstance(v.simulation_twin, ExplainableHourlyQuantities)]
    n_plots = 0
    for w, v in hourly_values():
        for cum in (False, True):
            try:
                v.plot(cumsum=cum)
                n_plots += 1
            except Exception as e:  # noqa
                ctx.require(False, f"{w}: plot(cumsum={cum}) works", f"{type(e).__name__}: {str(e)[:120]}")
            plt.close("all")
    for w, v, before in twins:
        after = cells(v.simulation_twin)
        ctx.require(len(before) == len(after) and all(abs(a - b) <= 1e-12 * max(abs(a), abs(b)) for a, b in zip(before, after)),
                    f"{w}: the simulated twin is unchanged by plotting", f"{before[:3]} -> {after[:3]}")
        for cum in (False, True):
            try:
                v.simulation_twin.plot(cumsum=cum)
            except Exception as e:  # noqa
                ctx.require(False, f"{w}: plotting the simulated twin works", f"{type(e).__name__}: {str(e)[:120]}")
            plt.close("all")
    ctx.require(n_plots > 0, "hourly values were plotted", str(n_plots))
    ctx.count("plots", n_plots)
    S.compare_snapshots(ctx, s0, S.snapshot(live), "after plotting every hourly value", identity=False, values=True, graph=False,
                        skip_attrs=("initial_total_energy_footprints_sum_over_period", "initial_total_fabrication_footprints_sum_over_period"))


HARNESSES = {"fixed_point": h_fixed_point, "fixed_point_builders": h_fixed_point_builders, "plots": h_plots}


def plan(tier, seed):
    p = []
    for sk in ("T1", "T3", "T5", "T7", "T9"):
        p.append(("fixed_point", dict(skeleton=sk, mode="each")))
        p.append(("fixed_point", dict(skeleton=sk, mode="chain")))
    for sk in ("T1", "T4", "T5"):
        p.append(("fixed_point", dict(skeleton=sk, mode="reads")))
    p.append(("fixed_point", dict(skeleton="T1", mode="pairs")))
    for sk in ("T1", "T7", "TX"):
        p.append(("fixed_point", dict(skeleton=sk, mode="attrs")))
    p.append(("fixed_point", dict(skeleton="TX", mode="each")))
    p.append(("fixed_point", dict(skeleton="TX", mode="reads", args={"shared": True})))
    p.append(("fixed_point", dict(skeleton="TX", mode="each", args={"same_names": True})))
    p.append(("fixed_point", dict(skeleton="T4", mode="each", args={"repeat": True})))
    p.append(("fixed_point", dict(skeleton="T1", mode="inputs")))
    p.append(("plots", dict(skeleton="T1", with_simulation=True)))
    p.append(("plots", dict(skeleton="T3", n=2, with_simulation=False)))
    from harness.c17 import BUILDER_CASES
    for i, (kind, choice) in enumerate(BUILDER_CASES):
        for mode in (("attrs", "reads") if tier == "quick" else ("each", "attrs", "reads")):
            p.append(("fixed_point_builders", dict(kind=kind, choice=choice, mode=mode)))
    p.append(("fixed_point", dict(skeleton="T3", mode="pairs", pair_sample=seed + 1)))
    p.append(("fixed_point", dict(skeleton="T5", mode="each", args={"type1": "on-premise", "type2": "autoscaling", "fixed1": 4})))
    p.append(("fixed_point", dict(skeleton="T1", mode="each", edit=num("job", "data_stored"))))
    p.append(("fixed_point", dict(skeleton="T9", mode="chain", edit=dict(k="link", obj="job", attr="server", target="srv_alt"))))
    # edits that leave a boundary state: a journey of duration zero, a job that stored / needed nothing, no traffic at all
    p.append(("fixed_point", dict(skeleton="T1", mode="each", values={"step.user_time_spent": 0}, edit=num("step", "user_time_spent"))))
    p.append(("fixed_point", dict(skeleton="T1", mode="each", values={"job.data_stored": 0, "job.ram_needed": 0}, edit=num("job", "data_stored"))))
    p.append(("fixed_point", dict(skeleton="T1", mode="each", values={"up.starts[0]": 0, "up.starts[1]": 0},
                                  edit=dict(k="starts", pat="up", n=2, start="2025-01-01T00:00:00"))))
    # after one update carrying several changes whose recomputation chains overlap (order of the merged chain)
    p.append(("fixed_point", dict(skeleton="T4", mode="each", edit=dict(k="group", edits=[num("jobB", "data_transferred"), num("step1", "user_time_spent")]))))
    p.append(("fixed_point", dict(skeleton="T4", mode="each", edit=dict(k="group", edits=[num("step1", "user_time_spent"), num("jobB", "data_transferred")]))))
    p.append(("fixed_point", dict(skeleton="T5", mode="each", edit=dict(k="group", edits=[num("job", "ram_needed"), num("srv", "ram"), num("job2", "data_stored")]))))
    if tier == "thorough":
        for sk in ("T2", "T4", "T7", "T9"):
            p.append(("fixed_point", dict(skeleton=sk, mode="pairs", pair_sample=seed + 7, n=3)))
            p.append(("fixed_point", dict(skeleton=sk, mode="reads", n=3)))
        for sk in ("T1", "T3", "T5", "T7", "T9"):
            p.append(("fixed_point", dict(skeleton=sk, mode="each", n=3, edit=num("job", "request_duration"))))
        p.append(("fixed_point", dict(skeleton="T3", mode="pairs", n=2)))
        for sk in ("T2", "T3", "T4", "T5", "T9"):
            p.append(("fixed_point", dict(skeleton=sk, mode="attrs")))
        for sk in ("T3", "T5", "T7"):
            p.append(("fixed_point", dict(skeleton=sk, mode="inputs")))
    return p
