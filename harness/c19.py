"""C19 — Results are independent of creation order, identifiers and hashing."""
import itertools
import json
import os
import random
import subprocess
import sys
import uuid

from harness import model as M, values as V
from harness.common import traffic_syms, gt_sets, sym_slots

PROPERTY = "C19"
LEVEL = "model_checking"
UNCONFIRMED_OK = True   # a difference seen only under an explored set order is a candidate; see DESIGN §5 C19
BOUNDS = {"hours_per_series": "N=2 (4 on TH)", "skeletons": "T2, T3, T5, T9, TX, two-device/two-job variants, T5n (servers, storages and networks named alike) "
          "and TH (two time zones, a time change in one of them: same first hour and length, different hours)",
          "configurations": "all permutations of usage_patterns / devices / same-step jobs (lists <= 3); reversed creation "
          "order of the objects of each class; 6 identifier assignments (uuid counter offsets); set iteration order as an "
          "explored choice for the first 3 (quick) / 5 (thorough) sets with >= 2 elements met while computing; 4 real "
          "processes with PYTHONHASHSEED 0..3"}
ASSUMPTIONS = ["value equality is decided over the reals (sums in another order are equal; float re-association noise is "
               "outside the claim)", "set iteration orders beyond the explored budget follow insertion order",
               "a difference that shows only under an explored set order is reported only if a bounded search over real "
               "identifiers (200 uuid seeds, real `set`) reproduces it on the untouched code; otherwise it is logged"]


def _sym(spec, steps=False):
    sym = traffic_syms(spec)
    if steps:
        sym.update(sym_slots(spec, [("steps", "user_time_spent", 0, 119, (1, 100))]))
    sym.update(sym_slots(spec, [("jobs", "data_transferred", 0, 10 ** 6, (1, 900)), ("jobs", "ram_needed", 0, 10 ** 5, (1, 900)),
                                ("devices", "power", 0, 1000, (1, 100)),
                                ("countries", "average_carbon_intensity", 0, 1000, (10, 500)),
                                ("servers", "power", 1, 10 ** 4, (100, 500))]))
    return sym


def variant(spec, kind, arg):
    """spec with an order-irrelevant list permuted / creation order changed"""
    s = M.spec_copy(spec)
    if kind == "patterns":
        s["system"]["patterns"] = [s["system"]["patterns"][i] for i in arg]
    elif kind == "devices":
        for p in s["patterns"].values():
            if len(p["devices"]) == len(arg):
                p["devices"] = [p["devices"][i] for i in arg]
    elif kind == "step_jobs":
        for st in s["steps"].values():
            if len(st["jobs"]) == len(arg):
                st["jobs"] = [st["jobs"][i] for i in arg]
    elif kind == "creation":
        for coll in ("storages", "servers", "jobs", "steps", "journeys", "devices", "countries", "networks", "patterns"):
            if coll in s:
                items = list(s[coll].items())
                # dependencies only go across collections, so any order inside a collection is a valid creation order
                s[coll] = dict(reversed(items) if arg == "reversed" else sorted(items, key=lambda kv: hash((kv[0], arg)) % 97))
    return s


def base_spec(skeleton):
    if skeleton == "T2d":
        s = M.T2(2)
        s["devices"]["dev2"] = {}
        s["devices"]["dev3"] = {}
        for p in s["patterns"].values():
            p["devices"] = ["dev", "dev2", "dev3"]
        s["jobs"]["job2"] = {"server": "srv"}
        s["jobs"]["job3"] = {"server": "srv"}
        s["steps"]["step"]["jobs"] = ["job", "job2", "job3"]
        return s
    if skeleton == "T3b":
        # the same job called from steps of two different journeys used by different usage patterns
        s = M.T3(2)
        s["steps"]["step2"]["jobs"] = ["job2", "job"]
        s["journeys"]["uj2"]["steps"] = ["step2"]
        return s
    if skeleton == "T7d":
        # one storage fed by a storing job and a deleting job (and a third storing job)
        s = M.T7(2, offset_hours=0)
        s["jobs"]["job3"] = {"server": "srv"}
        s["steps"]["step"]["jobs"] = ["job", "job3"]
        return s
    if skeleton == "T5n":
        # two servers, two storages and two networks that carry the same display names (library default names), with
        # different loads
        s = M.T5(2, type1="autoscaling", type2="serverless")
        s["servers"]["srv2"]["name"] = "srv"
        s["storages"]["st2"]["name"] = "st"
        s["networks"]["net2"] = {"name": "net"}
        s["journeys"]["uj2"] = {"steps": ["step"]}
        s["patterns"]["up2"] = M._pattern("uj2", network="net2", n=2, default=[5, 7])
        s["system"]["patterns"] = ["up", "up2"]
        return s
    if skeleton == "T2c":
        # two usage patterns in different countries sharing one network and one journey
        s = M.T2(2)
        s["countries"]["de"] = {"tz": "Europe/Berlin"}
        s["patterns"]["up2"]["country"] = "de"
        s["devices"]["dev2"] = {}
        s["patterns"]["up2"]["devices"] = ["dev2"]
        return s
    if skeleton == "T2cn":
        # two distinct countries carrying the same name and short name on one network (like the devices and the patterns)
        return M.T2c(2, same_names=True)
    if skeleton == "TH":
        # two zones, one of which has a time change in the period: series with the same first hour and length whose
        # hours differ (4 hours per series here, the smallest period that has the missing hour inside)
        return M.TH(4)
    return M.SKELETONS[skeleton](2)


def h_config(ctx, skeleton, kind, arg, uuid_offset=0, set_budget=0):
    from sx import stubs
    spec = base_spec(skeleton)
    values = {"jobdel.data_stored": -60, "st.base_storage_need": 5} if skeleton == "T7d" else {}
    env = M.Env(ctx, symbolic={k: v for k, v in _sym(spec, steps=(kind == "step_jobs")).items() if k not in values}, values=values)
    if ctx.symbolic:
        stubs.reset_uuid(0)
    ref = M.build(spec, env)
    V.observe_system(ctx, ref, "ref.")
    spec2 = variant(spec, kind, arg) if kind != "none" else spec
    if ctx.symbolic:
        stubs.reset_uuid(uuid_offset)
        if set_budget:
            stubs.install_ndset(set_budget)
        try:
            other = M.build(spec2, env)
        finally:
            if set_budget:
                stubs.NDSet.budget[0] = 0
        V.compare_systems(ctx, other, ref, f"{kind}{arg} / ids+{uuid_offset} / set orders: same results as the reference build")
    else:
        # replay on the untouched code: bounded search over real identifier assignments (real `set`, real hashing)
        import efootprint.abstract_modeling_classes.modeling_object as mo
        orig = mo.uuid.uuid4
        rnd = random.Random(12345)
        try:
            for k in range(200 if set_budget else 6):
                mo.uuid.uuid4 = lambda: uuid.UUID(int=rnd.getrandbits(128), version=4)
                other = M.build(spec2, env)
                V.compare_systems(ctx, other, ref, f"{kind}{arg} / ids+{uuid_offset} / set orders: same results as the reference build")
                if ctx.failures:
                    break
        finally:
            mo.uuid.uuid4 = orig


_CHILD = r'''
import sys, json
sys.path.insert(0, sys.argv[1]); sys.path.insert(0, sys.argv[2])
import logging; logging.disable(logging.CRITICAL)
from harness import model as M, values as V
from harness.c19 import base_spec
class C: symbolic = False
out = {}
for sk in ("T3", "T5", "T2d", "T9", "T2c", "T3b", "TX", "T5n", "TH", "T2cn"):
    objs = M.build(base_spec(sk), M.Env(C(), {}))
    for name, o in objs.items():
        if hasattr(o, "calculated_attributes"):
            for attr, v in V.calc_attr_items(o):
                if attr.endswith("#keys"):
                    out[f"{sk}.{name}.{attr}"] = v
                else:
                    out[f"{sk}.{name}.{attr}"] = {str(k): float(c) for k, c in V.phys(v)[1].items()}
print("RESULT" + json.dumps(out))
'''


def h_hashseed(ctx, seeds):
    """the same models computed in separate processes with different PYTHONHASHSEED give the same numbers"""
    verif = os.path.dirname(os.path.dirname(os.path.abspath(__file__)))
    repo = os.environ.get("VERIF_REPO", "/repo")
    results = []
    for s in seeds:
        env = dict(os.environ, PYTHONHASHSEED=str(s), PYTHONPATH=f"{verif}:{repo}")
        r = subprocess.run([sys.executable, "-c", _CHILD, verif, repo], capture_output=True, text=True, env=env, timeout=600)
        line = [l for l in r.stdout.splitlines() if l.startswith("RESULT")]
        ctx.require(len(line) == 1, f"child process with PYTHONHASHSEED={s} computed the models", r.stderr[-300:])
        if line:
            results.append(json.loads(line[0][6:]))
    ref = results[0]
    for s, res in zip(seeds[1:], results[1:]):
        ctx.require(set(res) == set(ref), f"PYTHONHASHSEED={s}: same attributes")
        nbad = 0
        for k, v in ref.items():
            w = res.get(k)
            if isinstance(v, dict):
                same = set(v) == set(w or {}) and all(abs(v[t] - w[t]) <= 1e-9 * max(abs(v[t]), abs(w[t])) + 1e-12 for t in v)
            else:
                same = v == w
            if not same:
                nbad += 1
                ctx.require(False, f"PYTHONHASHSEED={s}: {k} equals the value computed with seed {seeds[0]}", f"{str(v)[:80]} vs {str(w)[:80]}")
        ctx.require(nbad == 0, f"PYTHONHASHSEED={s}: all calculated attributes equal")


HARNESSES = {"config": h_config, "hashseed": h_hashseed}


def plan(tier, seed):
    p = []
    for sk in ("T3", "T9", "T2d", "T2c", "T5n", "TH", "T2cn"):
        for perm in itertools.permutations(range(2)):
            p.append(("config", dict(skeleton=sk, kind="patterns", arg=list(perm))))
    for perm in itertools.permutations(range(3)):
        p.append(("config", dict(skeleton="T2d", kind="devices", arg=list(perm))))
        p.append(("config", dict(skeleton="T2d", kind="step_jobs", arg=list(perm))))
    for perm in itertools.permutations(range(2)):
        p.append(("config", dict(skeleton="T5", kind="step_jobs", arg=list(perm))))
    for perm in itertools.permutations(range(3)):
        p.append(("config", dict(skeleton="TX", kind="patterns", arg=list(perm))))
    for sk in ("T3", "T5", "T9", "T2d", "T2c", "T3b", "T7d", "TX", "T5n"):
        p.append(("config", dict(skeleton=sk, kind="creation", arg="reversed")))
        p.append(("config", dict(skeleton=sk, kind="creation", arg=seed + 1)))
        for off in (1000, 2000, 31337, 77777, 123456):
            p.append(("config", dict(skeleton=sk, kind="none", arg=0, uuid_offset=off)))
        p.append(("config", dict(skeleton=sk, kind="none", arg=0, set_budget=4 if tier == "quick" else 6),
                  dict(max_paths=300 if tier == "quick" else 3000, max_seconds=200 if tier == "quick" else 1500)))
    for sk in ("TH", "T2cn"):
        p.append(("config", dict(skeleton=sk, kind="creation", arg="reversed")))
        for off in (1000, 31337):
            p.append(("config", dict(skeleton=sk, kind="none", arg=0, uuid_offset=off)))
        p.append(("config", dict(skeleton=sk, kind="none", arg=0, set_budget=4 if tier == "quick" else 6),
                  dict(max_paths=300 if tier == "quick" else 3000, max_seconds=200 if tier == "quick" else 1500)))
    p.append(("hashseed", dict(seeds=[0, 1, 2, 3] if tier == "quick" else list(range(12))), dict(allow_no_obligation=False)))
    return p
