"""C20 — Hourly-series builders produce exactly the requested time line."""
import math
from datetime import datetime, timedelta

import numpy as np

from efootprint.builders import time_builders as tb
from efootprint.constants.units import u
from harness import values as V
from sx.core import ite, or_, and_, sym_eq, Sym

PROPERTY = "C20"
LEVEL = "model_checking"
BOUNDS = {"symbolic": "volumes and list values (reals), hours in 0..23, active days in 0..6 / 1..31 / 1..366 (integers, "
          "distinct)", "start_dates": "2024-02-28 22:00 (leap), 2023-02-28 23:00, 2024-12-31 20:00, 2025-01-31 12:00, "
          "2025-06-02..08 (each weekday) 00:00/07:00", "spans": "1 h .. 72 h incl. non-integer days (1.5 day, 30 h, 50 h)",
          "frequency helpers": "daily/weekly/monthly/yearly with 1-2 symbolic hours and 1 symbolic active day",
          "fluctuation helpers": "linear_growth / sinusoidal / daily_fluct: time line only (values go through numpy "
          "transcendental kernels, outside the encoding)"}
ASSUMPTIONS = ["start dates and spans are concrete (enumerated family); hours/days/values/volumes are decided by the solver",
               "hours and active days are distinct and inside their documented domain",
               "'one value per hour' = every hour stamp from the start date to start + timespan inclusive"]
HOUR = timedelta(hours=1)
STARTS = {"leap": datetime(2024, 2, 28, 22), "nonleap": datetime(2023, 2, 28, 23), "newyear": datetime(2024, 12, 31, 20),
          "monthend": datetime(2025, 1, 31, 12), "mon": datetime(2025, 6, 2, 0), "tue": datetime(2025, 6, 3, 7),
          "wed": datetime(2025, 6, 4, 0), "thu": datetime(2025, 6, 5, 7), "fri": datetime(2025, 6, 6, 0),
          "sat": datetime(2025, 6, 7, 7), "sun": datetime(2025, 6, 8, 0), "leapday": datetime(2024, 2, 29, 0),
          "dec30leap": datetime(2024, 12, 30, 0)}


def n_hours(span_h):
    return int(math.floor(span_h + 1e-9)) + 1


def check_timeline(ctx, df, start, span_h, unit, lab, n=None):
    idx = list(df.index)
    n = n if n is not None else n_hours(span_h)
    ctx.require(len(idx) == n, f"{lab}: one value per hour of the span", f"{len(idx)} vs {n}")
    ok = all(idx[i].to_pydatetime() == start + i * HOUR for i in range(len(idx)))
    ctx.require(ok, f"{lab}: contiguous hourly index starting at the requested start date", str(idx[:2]))
    ctx.require(str(df.dtypes.iloc[0].units) == str(u(unit).units if hasattr(u(unit), "units") else u(unit)),
                f"{lab}: requested unit", str(df.dtypes.iloc[0].units))


def criterion(frequency, d):
    return {"weekly": d.weekday(), "monthly": d.day, "yearly": d.timetuple().tm_yday}[frequency]


def distinct(ctx, xs):
    for i in range(len(xs)):
        for j in range(i + 1, len(xs)):
            ctx.assume(xs[i] != xs[j])


def h_frequency(ctx, frequency, start, span_h, n_hours_sym=1, unit="dimensionless", day_sym=True, empty=None):
    """empty='hours' / 'days': an explicitly empty selection (no matching hour at all: the series is zero everywhere)"""
    st = STARTS[start]
    vol = ctx.var("volume", lo=0, hi=10 ** 6, nice=(1, 500))
    hours = [ctx.var(f"hour{k}", lo=0, hi=23, integer=True) for k in range(n_hours_sym)] if empty != "hours" else []
    distinct(ctx, hours)
    days = None
    if frequency != "daily":
        lo, hi = {"weekly": (0, 6), "monthly": (1, 31), "yearly": (1, 366)}[frequency]
        if empty == "days":
            days = []
        elif day_sym:
            days = [ctx.var("day0", lo=lo, hi=hi, integer=True)]
        else:
            days = None
    out = tb.create_hourly_usage_from_frequency(span_h * u.hour, vol, frequency, active_days=days, hours=hours,
                                                start_date=st, pint_unit=u(unit))
    df = out.value
    lab = f"{frequency} from {start} over {span_h}h"
    check_timeline(ctx, df, st, span_h, unit, lab)
    eff_days = days if days is not None else ([0] if frequency == "weekly" else [1])
    cells = list(df["value"].values._data)
    for i, c in enumerate(cells):
        t = st + i * HOUR
        hit = or_(*[sym_eq(h, t.hour) for h in hours]) if hours else False
        if frequency != "daily":
            hit = and_(hit, or_(*[sym_eq(d, criterion(frequency, t)) for d in eff_days])) if eff_days else False
        ctx.eq(c, ite(hit, vol, 0), f"{lab}: volume at exactly the matching hours, zero elsewhere")
    ctx.observe("cell0", cells[0])


def h_daily_volume(ctx, start, span_h, n_hours_sym=2, unit="dimensionless"):
    st = STARTS[start]
    vol = ctx.var("daily_volume", lo=0, hi=10 ** 6, nice=(1, 500))
    hours = [ctx.var(f"hour{k}", lo=0, hi=23, integer=True) for k in range(n_hours_sym)]
    distinct(ctx, hours)
    out = tb.create_hourly_usage_from_daily_volume_and_list_of_hours(span_h * u.hour, vol, hours, start_date=st,
                                                                     pint_unit=u(unit))
    df = out.value
    lab = f"daily volume from {start} over {span_h}h"
    check_timeline(ctx, df, st, span_h, unit, lab)
    cells = list(df["value"].values._data)
    per_day = {}
    for i, c in enumerate(cells):
        t = st + i * HOUR
        hit = or_(*[sym_eq(h, t.hour) for h in hours])
        ctx.eq(c, ite(hit, vol / n_hours_sym, 0), f"{lab}: volume/len(hours) at the chosen hours, zero elsewhere")
        per_day.setdefault(t.date(), []).append((t.hour, c))
    full = 0
    for d, lst in per_day.items():
        if len(lst) == 24:
            full += 1
            ctx.eq(sum(c for _, c in lst), vol, f"{lab}: every full day sums to the daily volume")
    ctx.observe("cell0", cells[0])


def h_from_list(ctx, start, n, unit):
    st = STARTS[start]
    xs = [ctx.var(f"x[{i}]", lo=-1000, hi=10 ** 6, nice=(1, 90)) for i in range(n)]
    for maker, nm in ((lambda: tb.create_hourly_usage_df_from_list(xs, start_date=st, pint_unit=u(unit)), "df_from_list"),
                      (lambda: tb.create_source_hourly_values_from_list(xs, start_date=st, pint_unit=u(unit)).value, "source_from_list")):
        df = maker()
        lab = f"{nm} from {start} n={n} [{unit}]"
        check_timeline(ctx, df, st, None, unit, lab, n=n)
        for i, c in enumerate(df["value"].values._data):
            ctx.eq(c, xs[i], f"{lab}: list reproduced element for element")
    ctx.observe("x0", xs[0])


def h_fluct(ctx, helper, start, span_h, unit="dimensionless"):
    st = STARTS[start]
    if helper == "linear":
        out = tb.linear_growth_hourly_values(span_h * u.hour, 5, 25, start_date=st, pint_unit=u(unit))
    elif helper == "sin":
        out = tb.sinusoidal_fluct_hourly_values(span_h * u.hour, 3, 12, start_date=st, pint_unit=u(unit))
    else:
        out = tb.daily_fluct_hourly_values(span_h * u.hour, 0.5, 4, start_date=st, pint_unit=u(unit))
    df = out.value
    lab = f"{helper} from {start} over {span_h}h"
    # these helpers return int(span in hours) values (no end stamp): one value per hour of [start, start+span)
    check_timeline(ctx, df, st, None, unit, lab, n=int(span_h))
    vals = [float(v) for v in df["value"].values._data]
    if helper == "linear":
        ctx.require(abs(vals[0] - 5) < 1e-9 and abs(vals[-1] - 25) < 1e-9, f"{lab}: goes from the start value to the end value")
    if helper == "daily":
        tmin = [st + i * HOUR for i, v in enumerate(vals) if abs(v - min(vals)) < 1e-9]
        ctx.require(all(t.hour == 4 for t in tmin), f"{lab}: minimum at the requested hour of the day")


HARNESSES = {"frequency": h_frequency, "daily_volume": h_daily_volume, "from_list": h_from_list, "fluct": h_fluct}


def plan(tier, seed):
    p = []
    for st, span in (("leap", 50), ("newyear", 30), ("mon", 72), ("monthend", 36), ("sun", 25)):
        p.append(("frequency", dict(frequency="daily", start=st, span_h=span, n_hours_sym=1)))
    p.append(("frequency", dict(frequency="daily", start="leap", span_h=48, n_hours_sym=2), dict(max_paths=1500)))
    for st, span in (("mon", 72), ("sat", 50), ("newyear", 48), ("thu", 30)):
        p.append(("frequency", dict(frequency="weekly", start=st, span_h=span), dict(max_paths=1500)))
    for st, span in (("leap", 72), ("monthend", 48), ("nonleap", 50)):
        p.append(("frequency", dict(frequency="monthly", start=st, span_h=span), dict(max_paths=2000)))
    for st, span in (("leap", 72), ("nonleap", 50), ("newyear", 48), ("dec30leap", 60)):
        p.append(("frequency", dict(frequency="yearly", start=st, span_h=span), dict(max_paths=2000)))
    p.append(("frequency", dict(frequency="weekly", start="sun", span_h=30, day_sym=False)))
    # explicitly empty selections
    p.append(("frequency", dict(frequency="daily", start="mon", span_h=30, empty="hours")))
    p.append(("frequency", dict(frequency="weekly", start="sun", span_h=50, empty="days")))
    p.append(("frequency", dict(frequency="monthly", start="monthend", span_h=50, empty="days")))
    p.append(("frequency", dict(frequency="yearly", start="newyear", span_h=30, empty="hours")))
    p.append(("frequency", dict(frequency="monthly", start="monthend", span_h=30, day_sym=False)))
    for st, span in (("leap", 48), ("tue", 60)):
        p.append(("daily_volume", dict(start=st, span_h=span, n_hours_sym=2), dict(max_paths=1500)))
    p.append(("daily_volume", dict(start="newyear", span_h=52, n_hours_sym=1)))
    for st, n, un in (("leap", 4, "dimensionless"), ("newyear", 6, "GB"), ("wed", 1, "W"), ("monthend", 30, "kg")):
        p.append(("from_list", dict(start=st, n=n, unit=un)))
    for hp in ("linear", "sin", "daily"):
        for st, span in (("leap", 50), ("fri", 24), ("monthend", 37.5)):
            p.append(("fluct", dict(helper=hp, start=st, span_h=span), dict(allow_no_obligation=False)))
    if tier == "thorough":
        for fr in ("weekly", "monthly", "yearly"):
            for st in STARTS:
                p.append(("frequency", dict(frequency=fr, start=st, span_h=49.5), dict(max_paths=3000)))
        for st in STARTS:
            p.append(("frequency", dict(frequency="daily", start=st, span_h=49, n_hours_sym=2), dict(max_paths=1500)))
            p.append(("daily_volume", dict(start=st, span_h=73, n_hours_sym=2), dict(max_paths=1500)))
        p.append(("frequency", dict(frequency="weekly", start="mon", span_h=30, n_hours_sym=2), dict(max_paths=6000, max_seconds=3000)))
    return p
