"""C20 — Hourly-series builders produce exactly the requested time line."""
import math
from datetime import datetime, timedelta

import numpy as np

from efootprint.builders import time_builders as tb
from efootprint.constants.units import u
from harness import values as V
from sx.core import ite, or_, and_, sym_eq, Sym

PROPERTY = "C20"
LEVEL = "model_checking"
BOUNDS = {"symbolic": "volumes and list values (reals), hours in 0..23, active days in 0..6 / 1..31 / 1..366 (integers, "
          "distinct)", "start_dates": "2024-02-28 22:00 (leap), 2023-02-28 23:00, 2024-12-31 20:00, 2025-01-31 12:00, "
          "2025-06-02..08 (each weekday) 00:00/07:00", "spans": "1 h .. 72 h incl. non-integer days (1.5 day, 30 h, 50 h)",
          "frequency helpers": "daily/weekly/monthly/yearly with 1-2 symbolic hours and 1 symbolic active day",
          "span units": "hours; also day / week / year / minute on some instances (hours per unit stated by the harness)",
          "long spans": "62 days (monthly), 15 days (weekly), 4 days across a leap year's end (yearly): concrete hours, symbolic day",
          "fluctuation helpers": "linear_growth / sinusoidal / daily_fluct / random: time line by the same obligations; values "
          "compared concretely with an independent closed form (numpy transcendental kernels are outside the encoding)"}
ASSUMPTIONS = ["start dates and spans are concrete (enumerated family); hours/days/values/volumes are decided by the solver",
               "hours and active days are distinct and inside their documented domain",
               "'one value per hour' = every hour stamp from the start date to start + timespan inclusive"]
HOUR = timedelta(hours=1)
STARTS = {"leap": datetime(2024, 2, 28, 22), "nonleap": datetime(2023, 2, 28, 23), "newyear": datetime(2024, 12, 31, 20),
          "monthend": datetime(2025, 1, 31, 12), "mon": datetime(2025, 6, 2, 0), "tue": datetime(2025, 6, 3, 7),
          "wed": datetime(2025, 6, 4, 0), "thu": datetime(2025, 6, 5, 7), "fri": datetime(2025, 6, 6, 0),
          "sat": datetime(2025, 6, 7, 7), "sun": datetime(2025, 6, 8, 0), "leapday": datetime(2024, 2, 29, 0),
          "dec30leap": datetime(2024, 12, 30, 0)}


def n_hours(span_h):
    return int(math.floor(span_h + 1e-9)) + 1


def check_timeline(ctx, df, start, span_h, unit, lab, n=None):
    idx = list(df.index)
    n = n if n is not None else n_hours(span_h)
    ctx.require(len(idx) == n, f"{lab}: one value per hour of the span", f"{len(idx)} vs {n}")
    ok = all(idx[i].to_pydatetime() == start + i * HOUR for i in range(len(idx)))
    ctx.require(ok, f"{lab}: contiguous hourly index starting at the requested start date", str(idx[:2]))
    ctx.require(str(df.dtypes.iloc[0].units) == str(u(unit).units if hasattr(u(unit), "units") else u(unit)),
                f"{lab}: requested unit", str(df.dtypes.iloc[0].units))


def criterion(frequency, d):
    return {"weekly": d.weekday(), "monthly": d.day, "yearly": d.timetuple().tm_yday}[frequency]


def distinct(ctx, xs):
    for i in range(len(xs)):
        for j in range(i + 1, len(xs)):
            ctx.assume(xs[i] != xs[j])


SPAN_UNITS = {"hour": 1, "day": 24, "week": 168, "year": 8766, "minute": 1 / 60}   # hours per unit, stated here (not read from pint)


def span_q(span_h, span_unit):
    return (span_h / SPAN_UNITS[span_unit]) * u(span_unit)


def h_frequency(ctx, frequency, start, span_h, n_hours_sym=1, unit="dimensionless", day_sym=True, empty=None,
                span_unit="hour", n_days_sym=1, fixed_hours=None):
    """empty='hours' / 'days': an explicitly empty selection (no matching hour at all: the series is zero everywhere);
    span_unit: the time span is written in that unit; fixed_hours: concrete hours (long spans, symbolic day only)"""
    st = STARTS[start]
    vol = ctx.var("volume", lo=0, hi=10 ** 6, nice=(1, 500))
    hours = [ctx.var(f"hour{k}", lo=0, hi=23, integer=True) for k in range(n_hours_sym)] if empty != "hours" else []
    if fixed_hours is not None:
        hours = list(fixed_hours)
    distinct(ctx, hours)
    days = None
    if frequency != "daily":
        lo, hi = {"weekly": (0, 6), "monthly": (1, 31), "yearly": (1, 366)}[frequency]
        if empty == "days":
            days = []
        elif day_sym:
            days = [ctx.var(f"day{k}", lo=lo, hi=hi, integer=True) for k in range(n_days_sym)]
            distinct(ctx, days)
        else:
            days = None
    out = tb.create_hourly_usage_from_frequency(span_q(span_h, span_unit), vol, frequency, active_days=days, hours=hours,
                                                start_date=st, pint_unit=u(unit))
    df = out.value
    lab = f"{frequency} from {start} over {span_h}h" + ("" if span_unit == "hour" else f" written in {span_unit}")
    check_timeline(ctx, df, st, span_h, unit, lab)
    eff_days = days if days is not None else ([0] if frequency == "weekly" else [1])
    cells = list(df["value"].values._data)
    for i, c in enumerate(cells):
        t = st + i * HOUR
        hit = or_(*[sym_eq(h, t.hour) for h in hours]) if hours else False
        if frequency != "daily":
            hit = and_(hit, or_(*[sym_eq(d, criterion(frequency, t)) for d in eff_days])) if eff_days else False
        ctx.eq(c, ite(hit, vol, 0), f"{lab}: volume at exactly the matching hours, zero elsewhere")
    ctx.observe("cell0", cells[0])


def h_daily_volume(ctx, start, span_h, n_hours_sym=2, unit="dimensionless", span_unit="hour"):
    st = STARTS[start]
    vol = ctx.var("daily_volume", lo=0, hi=10 ** 6, nice=(1, 500))
    hours = [ctx.var(f"hour{k}", lo=0, hi=23, integer=True) for k in range(n_hours_sym)]
    distinct(ctx, hours)
    out = tb.create_hourly_usage_from_daily_volume_and_list_of_hours(span_q(span_h, span_unit), vol, hours, start_date=st,
                                                                     pint_unit=u(unit))
    df = out.value
    lab = f"daily volume from {start} over {span_h}h"
    check_timeline(ctx, df, st, span_h, unit, lab)
    cells = list(df["value"].values._data)
    per_day = {}
    for i, c in enumerate(cells):
        t = st + i * HOUR
        hit = or_(*[sym_eq(h, t.hour) for h in hours])
        ctx.eq(c, ite(hit, vol / n_hours_sym, 0), f"{lab}: volume/len(hours) at the chosen hours, zero elsewhere")
        per_day.setdefault(t.date(), []).append((t.hour, c))
    full = 0
    for d, lst in per_day.items():
        if len(lst) == 24:
            full += 1
            ctx.eq(sum(c for _, c in lst), vol, f"{lab}: every full day sums to the daily volume")
    ctx.observe("cell0", cells[0])


def h_from_list(ctx, start, n, unit):
    st = STARTS[start]
    xs = [ctx.var(f"x[{i}]", lo=-1000, hi=10 ** 6, nice=(1, 90)) for i in range(n)]
    for maker, nm in ((lambda: tb.create_hourly_usage_df_from_list(xs, start_date=st, pint_unit=u(unit)), "df_from_list"),
                      (lambda: tb.create_source_hourly_values_from_list(xs, start_date=st, pint_unit=u(unit)).value, "source_from_list")):
        df = maker()
        lab = f"{nm} from {start} n={n} [{unit}]"
        check_timeline(ctx, df, st, None, unit, lab, n=n)
        for i, c in enumerate(df["value"].values._data):
            ctx.eq(c, xs[i], f"{lab}: list reproduced element for element")
    ctx.observe("x0", xs[0])


def h_fluct(ctx, helper, start, span_h, unit="dimensionless", span_unit="hour", a=None, b=None):
    """a, b: the helper's two numeric parameters (start/end value, amplitude/period, scale/hour of the minimum)"""
    st = STARTS[start]
    span = span_q(span_h, span_unit)
    if helper == "linear":
        a, b = (5, 25) if a is None else (a, b)
        out = tb.linear_growth_hourly_values(span, a, b, start_date=st, pint_unit=u(unit))
    elif helper == "sin":
        a, b = (3, 12) if a is None else (a, b)
        out = tb.sinusoidal_fluct_hourly_values(span, a, b, start_date=st, pint_unit=u(unit))
    elif helper == "random":
        a, b = (1, 10) if a is None else (a, b)
        df = tb.create_random_hourly_usage_df(span, a, b, start_date=st, pint_unit=u(unit))
    else:
        a, b = (0.5, 4) if a is None else (a, b)
        out = tb.daily_fluct_hourly_values(span, a, b, start_date=st, pint_unit=u(unit))
    lab = f"{helper}({a}, {b}) from {start} over {span_h}h" + ("" if span_unit == "hour" else f" written in {span_unit}")
    if helper == "random":
        # like the frequency helpers: every hour stamp from the start date to start + timespan inclusive
        check_timeline(ctx, df, st, span_h, unit, lab)
        vals = [float(v) for v in df["value"].values._data]
        ctx.require(all(a <= v < b and v == int(v) for v in vals), f"{lab}: integers drawn in [min, max)")
        return
    df = out.value
    # these helpers return int(span in hours) values (no end stamp): one value per hour of [start, start+span)
    n = int(span_h + 1e-9)
    check_timeline(ctx, df, st, None, unit, lab, n=n)
    vals = [float(v) for v in df["value"].values._data]
    close = lambda x, y: abs(x - y) <= 1e-9 * max(1.0, abs(x), abs(y))
    if helper == "linear":
        ctx.require(close(vals[0], a) and close(vals[-1], b), f"{lab}: goes from the start value to the end value")
        ctx.require(all(close(v, a + (b - a) * i / (n - 1)) for i, v in enumerate(vals)) if n > 1 else True,
                    f"{lab}: equal steps between the start value and the end value")
    if helper == "sin":
        ctx.require(all(close(v, a * math.sin(2 * math.pi * i / b)) for i, v in enumerate(vals)),
                    f"{lab}: amplitude x sin(2 pi hours / period), hour by hour")
    if helper == "daily":
        tmin = [st + i * HOUR for i, v in enumerate(vals) if abs(v - min(vals)) < 1e-9]
        if n >= 24:
            ctx.require(all(t.hour == b for t in tmin), f"{lab}: minimum at the requested hour of the day")
        ctx.require(all(close(v, 1 - a * math.cos(2 * math.pi * (((st + i * HOUR).hour - b) % 24) / 24))
                        for i, v in enumerate(vals)),
                    f"{lab}: 1 - scale x cos(2 pi (hour of day - hour of minimum) / 24), hour by hour")


def h_defaults(ctx, n):
    """helpers called without start date / unit: documented defaults (2025-01-01 00:00, dimensionless)"""
    st = datetime(2025, 1, 1)
    xs = [ctx.var(f"x[{i}]", lo=-1000, hi=10 ** 6, nice=(1, 90)) for i in range(n)]
    df = tb.create_source_hourly_values_from_list(xs).value
    check_timeline(ctx, df, st, None, "dimensionless", "source_from_list with defaults", n=n)
    for i, c in enumerate(df["value"].values._data):
        ctx.eq(c, xs[i], "source_from_list with defaults: list reproduced element for element")
    vol = ctx.var("volume", lo=0, hi=10 ** 6, nice=(1, 500))
    for fr, first_hit in (("daily", 0), ("weekly", 5 * 24), ("monthly", 0), ("yearly", 0)):
        df = tb.create_hourly_usage_from_frequency(7 * u.day, vol, fr).value
        lab = f"{fr} with defaults over 7 days"
        check_timeline(ctx, df, st, 168, "dimensionless", lab)
        for i, c in enumerate(df["value"].values._data):
            t = st + i * HOUR
            hit = t.hour == 0 and (fr == "daily" or (fr == "weekly" and t.weekday() == 0) or
                                   (fr == "monthly" and t.day == 1) or (fr == "yearly" and t.timetuple().tm_yday == 1))
            ctx.eq(c, vol if hit else 0, f"{lab}: volume at the default day and hour only")
    for hp, args in (("linear", (2, 8)), ("sin", (3, 12)), ("daily", (0.5,))):
        f = {"linear": tb.linear_growth_hourly_values, "sin": tb.sinusoidal_fluct_hourly_values,
             "daily": tb.daily_fluct_hourly_values}[hp]
        df = f(30 * u.hour, *args).value
        check_timeline(ctx, df, st, None, "dimensionless", f"{hp} with defaults", n=30)
    df = tb.create_random_hourly_usage_df()
    check_timeline(ctx, df, st, 24, "dimensionless", "random with defaults (1 day)")
    ctx.observe("x0", xs[0])


HARNESSES = {"frequency": h_frequency, "daily_volume": h_daily_volume, "from_list": h_from_list, "fluct": h_fluct,
             "defaults": h_defaults}


def plan(tier, seed):
    p = []
    for st, span in (("leap", 50), ("newyear", 30), ("mon", 72), ("monthend", 36), ("sun", 25)):
        p.append(("frequency", dict(frequency="daily", start=st, span_h=span, n_hours_sym=1)))
    p.append(("frequency", dict(frequency="daily", start="leap", span_h=48, n_hours_sym=2), dict(max_paths=1500)))
    for st, span in (("mon", 72), ("sat", 50), ("newyear", 48), ("thu", 30)):
        p.append(("frequency", dict(frequency="weekly", start=st, span_h=span), dict(max_paths=1500)))
    for st, span in (("leap", 72), ("monthend", 48), ("nonleap", 50)):
        p.append(("frequency", dict(frequency="monthly", start=st, span_h=span), dict(max_paths=2000)))
    for st, span in (("leap", 72), ("nonleap", 50), ("newyear", 48), ("dec30leap", 60)):
        p.append(("frequency", dict(frequency="yearly", start=st, span_h=span), dict(max_paths=2000)))
    p.append(("frequency", dict(frequency="weekly", start="sun", span_h=30, day_sym=False)))
    # explicitly empty selections
    p.append(("frequency", dict(frequency="daily", start="mon", span_h=30, empty="hours")))
    p.append(("frequency", dict(frequency="weekly", start="sun", span_h=50, empty="days")))
    p.append(("frequency", dict(frequency="monthly", start="monthend", span_h=50, empty="days")))
    p.append(("frequency", dict(frequency="yearly", start="newyear", span_h=30, empty="hours")))
    p.append(("frequency", dict(frequency="monthly", start="monthend", span_h=30, day_sym=False)))
    for st, span in (("leap", 48), ("tue", 60)):
        p.append(("daily_volume", dict(start=st, span_h=span, n_hours_sym=2), dict(max_paths=1500)))
    p.append(("daily_volume", dict(start="newyear", span_h=52, n_hours_sym=1)))
    for st, n, un in (("leap", 4, "dimensionless"), ("newyear", 6, "GB"), ("wed", 1, "W"), ("monthend", 30, "kg")):
        p.append(("from_list", dict(start=st, n=n, unit=un)))
    for hp in ("linear", "sin", "daily"):
        for st, span in (("leap", 50), ("fri", 24), ("monthend", 37.5)):
            p.append(("fluct", dict(helper=hp, start=st, span_h=span), dict(allow_no_obligation=False)))
    # time span written in another unit than hours; two symbolic active days; defaults; the random helper
    p.append(("frequency", dict(frequency="daily", start="tue", span_h=60, span_unit="day")))
    p.append(("frequency", dict(frequency="weekly", start="fri", span_h=42, span_unit="week"), dict(max_paths=1500)))
    p.append(("frequency", dict(frequency="monthly", start="monthend", span_h=43.83, span_unit="year"), dict(max_paths=2000)))
    p.append(("daily_volume", dict(start="sat", span_h=30, span_unit="day", n_hours_sym=2), dict(max_paths=1500)))
    p.append(("frequency", dict(frequency="weekly", start="sat", span_h=50, n_days_sym=2, fixed_hours=[7, 19]), dict(max_paths=1500)))
    p.append(("frequency", dict(frequency="monthly", start="leap", span_h=72, n_days_sym=2, fixed_hours=[0, 23]), dict(max_paths=2500)))
    # long spans (symbolic day, concrete hours): month ends of different lengths, day 366 of a leap / non-leap year
    p.append(("frequency", dict(frequency="monthly", start="monthend", span_h=24 * 62, fixed_hours=[12]), dict(max_paths=200)))
    p.append(("frequency", dict(frequency="yearly", start="dec30leap", span_h=24 * 4, fixed_hours=[0, 5]), dict(max_paths=200)))
    p.append(("frequency", dict(frequency="weekly", start="thu", span_h=24 * 15, fixed_hours=[7]), dict(max_paths=200)))
    p.append(("defaults", dict(n=3)))
    for st, span, su in (("leap", 50, "hour"), ("monthend", 36, "day"), ("sun", 1, "hour")):
        p.append(("fluct", dict(helper="random", start=st, span_h=span, span_unit=su), dict(allow_no_obligation=False)))
    for hp, a, b, st, span, su in (("linear", 0, 7.5, "tue", 60, "day"), ("linear", 12, 3, "newyear", 2, "hour"),
                                   ("sin", 2.5, 24, "leap", 84, "week"), ("sin", 1, 7, "sun", 30, "day"),
                                   ("daily", 1, 0, "thu", 48, "day"), ("daily", 0.25, 23, "newyear", 30, "hour"),
                                   ("daily", 0.8, 13, "sat", 60, "minute")):
        p.append(("fluct", dict(helper=hp, start=st, span_h=span, span_unit=su, a=a, b=b), dict(allow_no_obligation=False)))
    if tier == "thorough":
        for fr in ("weekly", "monthly", "yearly"):
            for st in STARTS:
                p.append(("frequency", dict(frequency=fr, start=st, span_h=49.5), dict(max_paths=3000)))
        for st in STARTS:
            p.append(("frequency", dict(frequency="daily", start=st, span_h=49, n_hours_sym=2), dict(max_paths=1500)))
            p.append(("daily_volume", dict(start=st, span_h=73, n_hours_sym=2), dict(max_paths=1500)))
        p.append(("frequency", dict(frequency="weekly", start="mon", span_h=30, n_hours_sym=2), dict(max_paths=6000, max_seconds=3000)))
    return p
