"""Helpers shared by the property harnesses: symbolic-slot selection, ground-truth object sets, finiteness."""
import math

import z3

from harness import model as M, values as V
from sx.core import Sym


def traffic_syms(spec, lo=0, hi=1000, nice=(1, 40)):
    sym = {}
    for pname, p in spec["patterns"].items():
        for i in range(p["starts"]["n"]):
            sym[f"{pname}.starts[{i}]"] = dict(lo=lo, hi=hi, nice=nice)
    return sym


def sym_slots(spec, items, strict_lo=()):
    """items: (collection, param, lo, hi, nice) -> {slot: varspec} for every object of the collection"""
    sym = {}
    for coll, param, lo, hi, nice in items:
        for name, o in spec.get(coll, {}).items():
            if o.get("cls", None) not in (None, "Server", "Job") and coll in ("servers", "jobs"):
                continue
            sym[f"{name}.{param}"] = dict(lo=lo, hi=hi, nice=nice, lo_strict=param in strict_lo)
    return sym


def gt_sets(spec):
    """Ground-truth object sets of the system, derived from the spec only (never from System.servers etc.)."""
    pats = list(spec["system"]["patterns"])
    jobs_of_pattern = {}
    jobs, servers, storages, networks, steps_all, journeys = [], [], [], [], [], []
    for p in pats:
        po = spec["patterns"][p]
        if po["journey"] not in journeys:
            journeys.append(po["journey"])
        if po["network"] not in networks:
            networks.append(po["network"])
        jl = []
        for st in spec["journeys"][po["journey"]]["steps"]:
            if st not in steps_all:
                steps_all.append(st)
            for j in spec["steps"][st]["jobs"]:
                if j not in jl:
                    jl.append(j)
        jobs_of_pattern[p] = jl
        for j in jl:
            if j not in jobs:
                jobs.append(j)
    for j in jobs:
        s = spec["jobs"][j]["server"]
        if s not in servers:
            servers.append(s)
    for s in servers:
        st = spec["servers"][s]["storage"]
        if st not in storages:
            storages.append(st)
    devices, countries = [], []
    for p in pats:
        for d in spec["patterns"][p]["devices"]:
            if d not in devices:
                devices.append(d)
        c = spec["patterns"][p]["country"]
        if c not in countries:
            countries.append(c)
    return dict(patterns=pats, jobs=jobs, servers=servers, storages=storages, networks=networks, steps=steps_all,
                journeys=journeys, devices=devices, countries=countries, jobs_of_pattern=jobs_of_pattern)


def multiplicity(spec, pattern, job):
    """[(step index, count)] appearances of job in the pattern's journey"""
    out = []
    for i, st in enumerate(spec["journeys"][spec["patterns"][pattern]["journey"]]["steps"]):
        c = spec["steps"][st]["jobs"].count(job)
        if c:
            out.append((i, c))
    return out


def check_finite(ctx, objs, gt):
    """No footprint is inf/nan: symbolically, no divisor met on the path can be zero; concretely, cells are finite."""
    if ctx.symbolic:
        seen = set()
        for dz in ctx.divisors:
            if z3.is_rational_value(dz) or z3.is_int_value(dz):
                continue
            i = dz.get_id()
            if i in seen:
                continue
            seen.add(i)
            ctx.unreachable(dz == 0, "finite: a divisor met on this path can be zero")
    else:
        for name in gt["servers"] + gt["storages"] + gt["patterns"] + gt["networks"] + ["system"]:
            o = objs[name]
            for attr, v in V.calc_attr_items(o):
                if attr.endswith("#keys"):
                    continue
                for k, c in V.phys(v)[1].items():
                    try:
                        ok = math.isfinite(float(c))
                    except Exception:
                        ok = True
                    ctx.require(ok, "finite: a divisor met on this path can be zero", f"{name}.{attr} = {c}")
