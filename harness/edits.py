"""Edit language: each edit is applied to a live system through the real API and mirrored on (spec, env) so that a
freshly built reference exists for the edited state."""
from datetime import datetime

from efootprint.abstract_modeling_classes.explainable_objects import EmptyExplainableObject
from efootprint.abstract_modeling_classes.modeling_update import ModelingUpdate
from efootprint.abstract_modeling_classes.source_objects import SourceValue
from efootprint.builders.time_builders import create_source_hourly_values_from_list
from efootprint.constants.units import u
from harness import model as M

LINK_KEY = {"server": ("jobs", "server"), "storage": ("servers", "storage"), "usage_journey": ("patterns", "journey"),
            "network": ("patterns", "network"), "country": ("patterns", "country")}
LIST_KEY = {"uj_steps": ("journeys", "steps"), "jobs": ("steps", "jobs"), "devices": ("patterns", "devices"),
            "usage_patterns": ("system", "patterns")}


def _coll_of(spec, name):
    for coll in ("storages", "servers", "jobs", "steps", "journeys", "devices", "countries", "networks", "patterns"):
        if name in spec.get(coll, {}):
            return coll
    raise KeyError(name)


def param_info(spec, obj, param):
    coll = _coll_of(spec, obj)
    kind = M.KIND_OF[coll]
    if kind == "server" and spec[coll][obj].get("cls") == "GPUServer":
        kind = "gpu_server"
    for p, d, un in M.PARAMS[kind]:
        if p == param:
            return d, un
    if param == "fixed_nb_of_instances":
        return None, "dimensionless"
    raise KeyError(f"{obj}.{param}")


def new_value(env, spec, e):
    """(live value object factory, mirrored env/spec update) for one primitive edit"""
    kind = e[0]
    if kind == "num":
        _, obj, param, val = e
        d, un = param_info(spec, obj, param)
        un = env.unit_of(f"{obj}.{param}", un)
        return lambda objs: SourceValue(val * u(un))
    if kind == "fixed":
        _, obj, val = e
        if val is None:
            return lambda objs: EmptyExplainableObject()
        return lambda objs: SourceValue(val * u.dimensionless)
    if kind == "starts":
        _, pat, values, start = e
        return lambda objs: create_source_hourly_values_from_list(list(values), start_date=start)
    if kind == "tz":
        _, c, zone = e
        return lambda objs: M.tz_obj(zone)
    if kind == "server_type":
        _, s, t = e
        return lambda objs: M.SERVER_TYPES[t]()
    if kind == "link":
        _, obj, attr, target = e
        return lambda objs: objs[target]
    if kind == "list_assign":
        _, obj, attr, names = e
        return lambda objs: [objs[n] for n in names]
    raise ValueError(kind)


def attr_of(e):
    kind = e[0]
    return {"num": lambda: (e[1], e[2]), "fixed": lambda: (e[1], "fixed_nb_of_instances"),
            "starts": lambda: (e[1], "hourly_usage_journey_starts"), "tz": lambda: (e[1], "timezone"),
            "server_type": lambda: (e[1], "server_type"), "link": lambda: (e[1], e[2]),
            "list_assign": lambda: (e[1], e[2])}[kind]()


def mirror(spec, env, e):
    """apply primitive edit e to (spec, env) -> (spec', env')"""
    spec = M.spec_copy(spec)
    kind = e[0]
    if kind == "num":
        _, obj, param, val = e
        env = env.child(values={f"{obj}.{param}": val})
    elif kind == "fixed":
        _, obj, val = e
        coll = _coll_of(spec, obj)
        spec[coll][obj]["fixed_nb_of_instances"] = 1 if val is not None else None
        if val is not None:
            env = env.child(values={f"{obj}.fixed_nb_of_instances": val})
    elif kind == "starts":
        _, pat, values, start = e
        spec["patterns"][pat]["starts"] = {"n": len(values), "start": start}
        env = env.child(values={f"{pat}.starts[{i}]": v for i, v in enumerate(values)})
    elif kind == "tz":
        spec["countries"][e[1]]["tz"] = e[2]
    elif kind == "server_type":
        spec["servers"][e[1]]["server_type"] = e[2]
    elif kind == "link":
        _, obj, attr, target = e
        coll, key = LINK_KEY[attr]
        spec[coll][obj][key] = target
    elif kind == "list_assign":
        _, obj, attr, names = e
        coll, key = LIST_KEY[attr]
        if coll == "system":
            spec["system"][key] = list(names)
        else:
            spec[coll][obj][key] = list(names)
    elif kind == "list_op":
        _, obj, attr, op, args = e
        coll, key = LIST_KEY[attr]
        lst = spec["system"][key] if coll == "system" else spec[coll][obj][key]
        _plain_list_op(lst, op, args)
    elif kind == "group":
        for sub in e[1]:
            spec, env = mirror(spec, env, sub)
    else:
        raise ValueError(kind)
    return spec, env


def _plain_list_op(lst, op, args):
    if op == "append":
        lst.append(args[0])
    elif op == "insert":
        lst.insert(args[0], args[1])
    elif op in ("extend", "iadd"):
        lst.extend(args[0])
    elif op == "imul":
        lst *= args[0]
    elif op == "pop":
        lst.pop(*args)
    elif op == "remove":
        lst.remove(args[0])
    elif op == "delitem":
        del lst[args[0]]
    elif op == "setitem":
        lst[args[0]] = args[1]
    elif op == "clear":
        lst.clear()
    else:
        raise ValueError(op)


def apply_live(objs, spec, env, e):
    """apply edit e to the live objects through the real API"""
    kind = e[0]
    if kind == "group":
        changes = []
        for sub in e[1]:
            o, a = attr_of(sub)
            changes.append([getattr(objs[o], a), new_value(env, spec, sub)(objs)])
        ModelingUpdate(changes)
        return
    if kind == "list_op":
        _, obj, attr, op, args = e
        lst = getattr(objs[obj], attr)
        if op == "append":
            lst.append(objs[args[0]])
        elif op == "insert":
            lst.insert(args[0], objs[args[1]])
        elif op == "extend":
            lst.extend([objs[n] for n in args[0]])
        elif op == "iadd":
            cur = getattr(objs[obj], attr)
            cur += [objs[n] for n in args[0]]
            setattr(objs[obj], attr, cur)
        elif op == "imul":
            cur = getattr(objs[obj], attr)
            cur *= args[0]
            setattr(objs[obj], attr, cur)
        elif op == "pop":
            lst.pop(*args)
        elif op == "remove":
            lst.remove(objs[args[0]])
        elif op == "delitem":
            del lst[args[0]]
        elif op == "setitem":
            lst[args[0]] = objs[args[1]]
        elif op == "clear":
            lst.clear()
        else:
            raise ValueError(op)
        return
    o, a = attr_of(e)
    setattr(objs[o], a, new_value(env, spec, e)(objs))


def apply(objs, spec, env, e):
    apply_live(objs, spec, env, e)
    return mirror(spec, env, e)
