"""Spec-driven construction of real e-footprint systems.

A *spec* is a plain dict describing which objects exist and how they are linked (concrete structure); every number
comes from an `Env` keyed by slot name ("srv.ram", "up.starts[1]").  `build(spec, env)` calls the real constructors.
Edits are applied both to a live system (through the real setters / list methods / ModelingUpdate) and to the spec,
so that a freshly built reference exists for every edited state (C01, C06, C13, C15 ...).
"""
import copy as _copy
from datetime import datetime

import pytz

from efootprint.abstract_modeling_classes.explainable_objects import EmptyExplainableObject
from efootprint.abstract_modeling_classes.source_objects import SourceValue, SourceObject, SourceHourlyValues
from efootprint.builders.time_builders import create_source_hourly_values_from_list
from efootprint.constants.units import u
from efootprint.core.country import Country
from efootprint.core.hardware.device import Device
from efootprint.core.hardware.gpu_server import GPUServer
from efootprint.core.hardware.network import Network
from efootprint.core.hardware.server import Server
from efootprint.core.hardware.server_base import ServerTypes
from efootprint.core.hardware.storage import Storage
from efootprint.core.system import System
from efootprint.core.usage.job import Job
from efootprint.core.usage.usage_journey import UsageJourney
from efootprint.core.usage.usage_journey_step import UsageJourneyStep
from efootprint.core.usage.usage_pattern import UsagePattern

# (parameter, default magnitude, default unit) — close to the classes' own defaults; non-integers are dyadic so that
# products of concrete defaults are exact in binary64 (no float noise enters the rational reading of constants)
PARAMS = {
    "storage": [
        ("carbon_footprint_fabrication_per_storage_capacity", 160, "kg/TB"),
        ("power_per_storage_capacity", 1.25, "W/TB"),
        ("lifespan", 6, "year"),
        ("idle_power", 0.5, "W"),
        ("storage_capacity", 1, "TB"),
        ("data_replication_factor", 3, "dimensionless"),
        ("data_storage_duration", 5, "year"),
        ("base_storage_need", 0.25, "TB"),
    ],
    "server": [
        ("carbon_footprint_fabrication", 600, "kg"),
        ("power", 300, "W"),
        ("lifespan", 6, "year"),
        ("idle_power", 50, "W"),
        ("ram", 128, "GB"),
        ("compute", 24, "cpu_core"),
        ("power_usage_effectiveness", 1.25, "dimensionless"),
        ("average_carbon_intensity", 100, "g/kWh"),
        ("server_utilization_rate", 0.875, "dimensionless"),
        ("base_ram_consumption", 2, "GB"),
        ("base_compute_consumption", 1, "cpu_core"),
    ],
    "gpu_server": [
        ("gpu_power", 400, "W/gpu"),
        ("gpu_idle_power", 50, "W/gpu"),
        ("ram_per_gpu", 80, "GB/gpu"),
        ("carbon_footprint_fabrication_per_gpu", 150, "kg/gpu"),
        ("average_carbon_intensity", 100, "g/kWh"),
        ("compute", 4, "gpu"),
        ("carbon_footprint_fabrication_without_gpu", 2500, "kg"),
        ("lifespan", 6, "year"),
        ("power_usage_effectiveness", 1.25, "dimensionless"),
        ("server_utilization_rate", 1, "dimensionless"),
        ("base_compute_consumption", 0, "gpu"),
        ("base_ram_consumption", 0, "GB"),
    ],
    "job": [
        ("data_transferred", 150, "kB"),
        ("data_stored", 100, "kB"),
        ("request_duration", 1, "s"),
        ("compute_needed", 0.125, "cpu_core"),
        ("ram_needed", 50, "MB"),
    ],
    "step": [("user_time_spent", 1, "min")],
    "device": [
        ("carbon_footprint_fabrication", 150, "kg"),
        ("power", 50, "W"),
        ("lifespan", 6, "year"),
        ("fraction_of_usage_time", 7, "hour/day"),
    ],
    "country": [("average_carbon_intensity", 85, "g/kWh")],
    "network": [("bandwidth_energy_intensity", 0.0625, "kWh/GB")],
}
KIND_OF = {"storages": "storage", "servers": "server", "jobs": "job", "steps": "step", "devices": "device",
           "countries": "country", "networks": "network", "journeys": "journey", "patterns": "pattern"}
SERVER_TYPES = {"autoscaling": ServerTypes.autoscaling, "on-premise": ServerTypes.on_premise,
                "serverless": ServerTypes.serverless}
DEFAULT_START = datetime(2025, 1, 1)


class Env:
    """slot -> number.  Symbolic slots become ctx.var(...) (created once, shared by every build of the same env)."""

    def __init__(self, ctx, symbolic=None, values=None, units=None, parent=None):
        self.ctx = ctx
        self.symbolic = dict(symbolic or {})   # slot -> dict(lo=, hi=, nice=, ...)
        self.values = dict(values or {})       # slot -> number or Sym (overrides defaults)
        self.units = dict(units or {})         # slot -> unit string (C10)
        self._cache = parent._cache if parent is not None else {}
        self.sources = parent.sources if parent is not None else {}   # slot -> Source (C13)
        # skeleton-level defaults (slot -> number) and units (slot -> unit string), adopted from the spec by build():
        # they rank below explicit values and symbolic slots, above the class defaults of PARAMS
        self.defaults = parent.defaults if parent is not None else {}
        self.default_units = parent.default_units if parent is not None else {}

    def child(self, values=None, units=None, symbolic=None):
        e = Env(self.ctx, {**self.symbolic, **(symbolic or {})}, {**self.values, **(values or {})},
                {**self.units, **(units or {})}, parent=self)
        return e

    def get(self, slot, default):
        if slot in self.values:
            return self.values[slot]
        if slot in self.symbolic:
            if slot not in self._cache:
                self._cache[slot] = self.ctx.var(slot, **self.symbolic[slot])
            return self._cache[slot]
        return self.defaults.get(slot, default)

    def adopt(self, spec):
        d = spec.get("env_defaults") or {}
        self.defaults.update(d.get("values", {}))
        self.default_units.update(d.get("units", {}))

    def unit_of(self, slot, unit):
        """unit the slot is expressed in: explicit (C10) > skeleton default (only for slots that are neither symbolic nor
        given explicitly: a symbolic range is stated in the class default unit) > class default"""
        if slot in self.units:
            return self.units[slot]
        if slot in self.default_units and slot not in self.symbolic and slot not in self.values:
            return self.default_units[slot]
        return unit

    def fresh(self, name, **spec):
        """An extra variable (e.g. the new value of an edited slot)."""
        if name not in self._cache:
            self._cache[name] = self.ctx.var(name, **spec)
        return self._cache[name]

    def quantity(self, slot, default, unit):
        unit = self.unit_of(slot, unit)
        return self.get(slot, default) * u(unit)

    def sv(self, slot, default, unit, label=None):
        q = self.quantity(slot, default, unit)
        src = getattr(self, "sources", {}).get(slot)
        if src is not None:
            return SourceValue(q, source=src)
        return SourceValue(q) if label is None else SourceValue(q, label=label)


def tz_obj(zone):
    return SourceObject(pytz.timezone(zone))


def _kw(env, name, kind, skip=()):
    return {p: env.sv(f"{name}.{p}", d, un) for p, d, un in PARAMS[kind] if p not in skip}


def _fixed(env, name, o):
    if o.get("fixed_nb_of_instances") is None:
        return EmptyExplainableObject()
    return env.sv(f"{name}.fixed_nb_of_instances", o["fixed_nb_of_instances"], "dimensionless")


def starts_list(env, name, o):
    n = o["n"]
    dflt = o.get("default", [1, 2, 4, 3, 5, 1, 2, 3])
    return [env.get(f"{name}.starts[{i}]", dflt[i % len(dflt)]) for i in range(n)]


def make_starts(env, name, o):
    return create_source_hourly_values_from_list(starts_list(env, name, o["starts"]),
                                                 start_date=o["starts"].get("start", DEFAULT_START))


def _nm(name, o):
    """display name of the object (spec key unless the spec gives another one, e.g. to make two objects share a name)"""
    return o.get("name", name) if isinstance(o, dict) else name


def build(spec, env, order=None, make_system=True):
    """Build real objects from spec.  Returns dict name -> object (plus 'system')."""
    env.adopt(spec)
    objs = {}
    for name, o in spec.get("storages", {}).items():
        objs[name] = Storage(_nm(name, o), **_kw(env, name, "storage"), fixed_nb_of_instances=_fixed(env, name, o))
    for name, o in spec.get("servers", {}).items():
        st = objs[o["storage"]]
        if o.get("cls", "Server") == "Server":
            objs[name] = Server(_nm(name, o), server_type=SERVER_TYPES[o.get("server_type", "autoscaling")](),
                                **_kw(env, name, "server"), storage=st, fixed_nb_of_instances=_fixed(env, name, o))
        elif o["cls"] == "GPUServer":
            objs[name] = GPUServer(_nm(name, o), server_type=SERVER_TYPES[o.get("server_type", "serverless")](),
                                   **_kw(env, name, "gpu_server"), storage=st,
                                   fixed_nb_of_instances=_fixed(env, name, o))
        else:
            raise ValueError(o["cls"])
    for hook in spec.get("_after_servers", []):
        hook(spec, env, objs)
    for name, o in spec.get("jobs", {}).items():
        if o.get("cls", "Job") == "Job":
            objs[name] = Job(_nm(name, o), server=objs[o["server"]], **_kw(env, name, "job"))
        else:
            objs[name] = o["factory"](name, spec, env, objs)
    for name, o in spec.get("steps", {}).items():
        objs[name] = UsageJourneyStep(_nm(name, o), user_time_spent=env.sv(f"{name}.user_time_spent", 1, "min"),
                                      jobs=[objs[j] for j in o["jobs"]])
    for name, o in spec.get("journeys", {}).items():
        objs[name] = UsageJourney(_nm(name, o), uj_steps=[objs[s] for s in o["steps"]])
    for name, o in spec.get("devices", {}).items():
        objs[name] = Device(_nm(name, o), **_kw(env, name, "device"))
    for name, o in spec.get("countries", {}).items():
        objs[name] = Country(_nm(name, o), o.get("short", name[:3].upper()),
                             env.sv(f"{name}.average_carbon_intensity", 85, "g/kWh"), tz_obj(o.get("tz", "Europe/Paris")))
    for name, o in spec.get("networks", {}).items():
        objs[name] = Network(_nm(name, o), **_kw(env, name, "network"))
    for name, o in spec.get("patterns", {}).items():
        objs[name] = UsagePattern(_nm(name, o), objs[o["journey"]], [objs[d] for d in o["devices"]], objs[o["network"]],
                                  objs[o["country"]], make_starts(env, name, o))
    if make_system and "system" in spec:
        objs["system"] = System(spec["system"].get("name", "system"),
                                usage_patterns=[objs[p] for p in spec["system"]["patterns"]])
    return objs


# ----------------------------------------------------------------------------------------------------------------
# skeletons
# ----------------------------------------------------------------------------------------------------------------
def _pattern(journey, devices=("dev",), network="net", country="fr", n=3, start=DEFAULT_START, default=None):
    s = {"n": n, "start": start}
    if default is not None:
        s["default"] = default
    return {"journey": journey, "devices": list(devices), "network": network, "country": country, "starts": s}


def T1(n=3, server_type="autoscaling", tz="Europe/Paris", start=DEFAULT_START, fixed=None):
    return {
        "storages": {"st": {}},
        "servers": {"srv": {"storage": "st", "server_type": server_type, "fixed_nb_of_instances": fixed}},
        "jobs": {"job": {"server": "srv"}},
        "steps": {"step": {"jobs": ["job"]}},
        "journeys": {"uj": {"steps": ["step"]}},
        "devices": {"dev": {}},
        "countries": {"fr": {"tz": tz}},
        "networks": {"net": {}},
        "patterns": {"up": _pattern("uj", n=n, start=start)},
        "system": {"patterns": ["up"]},
    }


def T2(n=2):
    """two usage patterns sharing journey, network, country, device"""
    s = T1(n)
    s["patterns"]["up2"] = _pattern("uj", n=n, default=[2, 1, 3])
    s["system"]["patterns"] = ["up", "up2"]
    return s


def T2c(n=2, same_names=False):
    """two usage patterns in different countries (each with its own device) sharing one journey and one network;
    same_names: the two countries are distinct objects carrying the same name and short name (Countries.FRANCE() called
    twice, one copy given another electricity mix), like the two devices"""
    s = T2(n)
    s["countries"]["de"] = {"tz": "Europe/Berlin"}
    s["devices"]["dev2"] = {}
    s["patterns"]["up2"]["country"] = "de"
    s["patterns"]["up2"]["devices"] = ["dev2"]
    if same_names:
        s["countries"]["fr"].update(name="France", short="FRA")
        s["countries"]["de"].update(name="France", short="FRA")
        s["devices"]["dev"]["name"] = s["devices"]["dev2"]["name"] = "laptop"
        # (usage patterns keep distinct names: the comparison helpers key per-pattern dictionary entries by pattern name)
    return s


def TH(n=5, shared_journey=True):
    """two usage patterns whose UTC series have the same first hour and the same number of hours but not the same
    hours: Europe/Paris from 2025-10-26 00:00 local crosses the end of summer time (one UTC hour is missing from its
    index), Africa/Johannesburg has the same offset that night and no time change.  One network, one server/storage."""
    from datetime import datetime
    s = T2c(n)
    s["countries"]["de"] = {"tz": "Africa/Johannesburg"}
    for po in s["patterns"].values():
        po["starts"]["start"] = datetime(2025, 10, 26, 0)
    if not shared_journey:
        s["jobs"]["job2"] = {"server": "srv"}
        s["steps"]["step2"] = {"jobs": ["job2"]}
        s["journeys"]["uj2"] = {"steps": ["step2"]}
        s["patterns"]["up2"]["journey"] = "uj2"
    return s


def T1d(n=2, same_names=False):
    """T1 whose usage pattern has two devices (optionally two distinct devices carrying the same display name)"""
    s = T1(n)
    s["devices"]["dev2"] = {"name": s["devices"]["dev"].get("name", "dev")} if same_names else {}
    s["patterns"]["up"]["devices"] = ["dev", "dev2"]
    return s


def TX(n=2, shared=False, same_names=False):
    """"everything at once": two servers/storages, three jobs (one twice in a step, one in two steps), a step longer than
    an hour, two journeys, a usage pattern with two devices named alike, two countries on one network, a second
    network, a third pattern starting hours later (disjoint windows), a storage that expires data within the period and
    has an initial need, several inputs given in other units than the class defaults.  shared=True additionally lets the
    two journeys share a step (job shared by usage patterns: topology of finding R1)."""
    from datetime import timedelta
    s = {
        "storages": {"st": {}, "st2": {}},
        "servers": {"srv": {"storage": "st"}, "srv2": {"storage": "st2", "server_type": "serverless"}},
        "jobs": {"job": {"server": "srv"}, "job2": {"server": "srv2"}, "job3": {"server": "srv"}},
        "steps": {"step1": {"jobs": ["job", "job"]}, "step2": {"jobs": ["job2"]}, "step3": {"jobs": ["job3", "job2"] if shared else ["job3"]}},
        "journeys": {"uj": {"steps": ["step1", "step2"]}, "uj2": {"steps": ["step3", "step2"] if shared else ["step3"]}},
        "devices": {"dev": {"name": "laptop"}, "dev2": {"name": "laptop"}, "dev3": {}},
        "countries": {"fr": {"tz": "Europe/Paris"}, "de": {"tz": "Europe/Berlin"}, "my": {"tz": "Asia/Kuala_Lumpur"}},
        "networks": {"net": {}, "net2": {}},
        "patterns": {"up": _pattern("uj", devices=("dev", "dev2"), network="net", country="fr", n=n),
                     "up2": _pattern("uj2", devices=("dev3",), network="net", country="de", n=n, default=[2, 1, 3]),
                     "up3": _pattern("uj2", devices=("dev3",), network="net2", country="my", n=n, default=[3, 1, 2],
                                     start=DEFAULT_START + timedelta(hours=n + 6))},
        "system": {"patterns": ["up", "up2", "up3"]},
        "env_defaults": {
            "values": {"st.base_storage_need": 0.375, "st.data_storage_duration": 2.5, "st.data_replication_factor": 2,
                       "st2.storage_capacity": 512, "srv.ram": 0.125, "srv.base_ram_consumption": 1.5,
                       "job2.data_transferred": 0.002, "job3.ram_needed": 0.0625, "job3.data_stored": 250,
                       "step1.user_time_spent": 70, "step2.user_time_spent": 0.25, "dev2.lifespan": 1461, "dev2.power": 0.035,
                       "dev3.fraction_of_usage_time": 0.125, "de.average_carbon_intensity": 0.4, "my.average_carbon_intensity": 600,
                       "net2.bandwidth_energy_intensity": 0.125, "srv2.power_usage_effectiveness": 1.5,
                       "srv2.average_carbon_intensity": 0.25},
            "units": {"st.data_storage_duration": "hour", "st2.storage_capacity": "GB", "srv.ram": "TB", "job2.data_transferred": "GB",
                      "job3.ram_needed": "GB", "step2.user_time_spent": "hour", "dev2.lifespan": "day", "dev2.power": "kW",
                      "dev3.fraction_of_usage_time": "dimensionless", "de.average_carbon_intensity": "kg/kWh",
                      "net2.bandwidth_energy_intensity": "Wh/MB", "srv2.average_carbon_intensity": "kg/kWh"},
        },
    }
    if same_names:
        # names are not identifiers: every object of a class carries the same display name (archetypes instantiated
        # several times and not renamed), countries also the same short name
        # (usage patterns keep distinct names: the comparison helpers key per-pattern dictionary entries by pattern name)
        for coll in ("storages", "servers", "networks", "devices", "countries", "jobs", "steps", "journeys"):
            for o in s[coll].values():
                o["name"] = f"same {coll}"
        for o in s["countries"].values():
            o["short"] = "SAM"
    return s


def T1e(n=2):
    """T1 with a second, empty step (no job) in the journey"""
    s = T1(n)
    s["steps"]["step_empty"] = {"jobs": []}
    s["journeys"]["uj"]["steps"] = ["step", "step_empty"]
    return s


def T3(n=2, tz2="Asia/Kuala_Lumpur"):
    """two patterns, two journeys sharing one step (job shared), two networks, two countries in different zones"""
    s = T1(n)
    s["jobs"]["job2"] = {"server": "srv"}
    s["steps"]["step2"] = {"jobs": ["job2"]}
    s["journeys"]["uj2"] = {"steps": ["step", "step2"]}
    s["countries"]["my"] = {"tz": tz2}
    s["networks"]["net2"] = {}
    s["devices"]["dev2"] = {}
    s["patterns"]["up2"] = _pattern("uj2", devices=("dev2",), network="net2", country="my", n=n, default=[2, 1, 3])
    s["system"]["patterns"] = ["up", "up2"]
    return s


def T4(n=3, nsteps=3, repeat=False):
    """one pattern; job A in steps 1 and 3 and twice in step 1; job B in step 2; both on one server;
    repeat: the journey visits the *same step object* twice ([step1, step2, step1]) instead of a third step"""
    s = T1(n)
    s["jobs"] = {"jobA": {"server": "srv"}, "jobB": {"server": "srv"}}
    s["steps"] = {"step1": {"jobs": ["jobA", "jobA"]}, "step2": {"jobs": ["jobB"]}}
    steps = ["step1", "step2"]
    if repeat:
        steps.append("step1")
    elif nsteps >= 3:
        s["steps"]["step3"] = {"jobs": ["jobA"]}
        steps.append("step3")
    s["journeys"]["uj"]["steps"] = steps
    return s


def T5(n=2, type1="on-premise", type2="serverless", fixed1=None):
    """two servers + two storages, one job each, same journey"""
    s = T1(n)
    s["storages"]["st2"] = {}
    s["servers"] = {"srv": {"storage": "st", "server_type": type1, "fixed_nb_of_instances": fixed1},
                    "srv2": {"storage": "st2", "server_type": type2}}
    s["jobs"] = {"job": {"server": "srv"}, "job2": {"server": "srv2"}}
    s["steps"]["step"]["jobs"] = ["job", "job2"]
    return s


def T7(n=3, offset_hours=1):
    """two patterns with shifted windows, one writing and one deleting job on the same storage"""
    from datetime import timedelta
    s = T1(n)
    s["jobs"]["jobdel"] = {"server": "srv"}
    s["steps"]["stepdel"] = {"jobs": ["jobdel"]}
    s["journeys"]["ujdel"] = {"steps": ["stepdel"]}
    s["patterns"]["up2"] = _pattern("ujdel", n=n, start=DEFAULT_START + timedelta(hours=offset_hours),
                                    default=[1, 1, 2])
    s["system"]["patterns"] = ["up", "up2"]
    return s


def T8(n=2):
    """T3 plus spare objects for re-pointing"""
    s = T3(n)
    s["storages"]["st_alt"] = {}
    s["storages"]["st_free"] = {}
    s["servers"]["srv_alt"] = {"storage": "st_alt"}
    s["networks"]["net_alt"] = {}
    s["countries"]["de"] = {"tz": "Europe/Berlin"}
    s["devices"]["dev_alt"] = {}
    s["jobs"]["job_alt"] = {"server": "srv"}
    s["steps"]["step_alt"] = {"jobs": ["job_alt"]}
    s["journeys"]["uj_alt"] = {"steps": ["step_alt", "step"]}
    return s


def T9(n=2):
    """like T8 but no job is shared between the two usage patterns (disjoint journeys/steps/jobs, shared server)"""
    s = T8(n)
    s["journeys"]["uj2"] = {"steps": ["step2"]}
    s["journeys"]["uj_alt"] = {"steps": ["step_alt"]}
    s["jobs"]["job3"] = {"server": "srv"}
    s["steps"]["step3"] = {"jobs": ["job3"]}
    return s


SKELETONS = {"TH": TH, "T9": T9, "T2c": T2c, "T1e": T1e, "T1d": T1d, "TX": TX, "T1": T1, "T2": T2, "T3": T3, "T4": T4, "T5": T5, "T7": T7, "T8": T8}


def spec_copy(spec):
    return _copy.deepcopy(spec)
