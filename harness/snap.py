"""Snapshots of live models: identity and physical value of everything observable, graph edges, links."""
from efootprint.abstract_modeling_classes.contextual_modeling_object_attribute import ContextualModelingObjectAttribute
from efootprint.abstract_modeling_classes.explainable_object_base_class import ExplainableObject
from efootprint.abstract_modeling_classes.explainable_object_dict import ExplainableObjectDict
from efootprint.abstract_modeling_classes.list_linked_to_modeling_obj import ListLinkedToModelingObj
from efootprint.abstract_modeling_classes.modeling_object import ModelingObject
from harness import values as V

SKIP_ATTRS = {"contextual_modeling_obj_containers", "trigger_modeling_updates", "all_changes", "previous_change",
              "simulation", "previous_total_energy_footprints_sum_over_period",
              "previous_total_fabrication_footprints_sum_over_period"}


def _key_name(k):
    return getattr(k, "name", None) or str(k)


def _expl(v):
    cont = v.modeling_obj_container
    return dict(kind="value", ident=id(v), ref=v, phys=V.phys(v), label=v.label,
                anc=[id(a) for a in v.direct_ancestors_with_id],
                chi=[id(c) for c in v.direct_children_with_id],
                container=(cont.name if cont is not None else None, v.attr_name_in_mod_obj_container),
                twins=(id(v.simulation_twin) if v.simulation_twin is not None else None,
                       id(v.baseline_twin) if v.baseline_twin is not None else None))


def snapshot(objs):
    """objs: name -> object (as returned by model.build).  Covers every ModelingObject of the dict."""
    snap = {}
    for name, o in objs.items():
        if not isinstance(o, ModelingObject):
            continue
        rec = {}
        for attr, v in o.__dict__.items():
            if attr in SKIP_ATTRS:
                continue
            if isinstance(v, ExplainableObjectDict):
                rec[attr] = dict(kind="dict", ident=id(v), ref=v, entries={_key_name(k): _expl(e) for k, e in v.items()},
                                 container=(v.modeling_obj_container.name if v.modeling_obj_container is not None else None))
            elif isinstance(v, ExplainableObject):
                rec[attr] = _expl(v)
            elif isinstance(v, ContextualModelingObjectAttribute):
                rec[attr] = dict(kind="link", ident=id(v), ref=v, target=v._value.name,
                                 container=(v.modeling_obj_container.name if v.modeling_obj_container is not None else None))
            elif isinstance(v, ListLinkedToModelingObj):
                rec[attr] = dict(kind="list", ident=id(v), ref=(v, list(v)), targets=[e._value.name if hasattr(e, "_value") else e.name for e in v],
                                 wrappers=[id(e) for e in v],
                                 container=(v.modeling_obj_container.name if v.modeling_obj_container is not None else None))
            elif isinstance(v, (str, int, float)) or v is None:
                rec[attr] = dict(kind="plain", value=v)
        rec["#active_containers"] = dict(kind="containers", value=sorted(
            (c.modeling_obj_container.name, c.attr_name_in_mod_obj_container)
            for c in o.contextual_modeling_obj_containers if c.modeling_obj_container is not None))
        snap[name] = rec
    return snap


def compare_snapshots(ctx, before, after, label, identity=True, values=True, graph=True, skip_attrs=()):
    """Obligations: `after` is observably the same model as `before`."""
    ok = True
    for name in before:
        b, a = before[name], after.get(name)
        if a is None:
            ok = ctx.require(False, f"{label}: object {name} still present") and ok
            continue
        ok = ctx.require(set(a.keys()) == set(b.keys()), f"{label}: {name} has the same attributes",
                         f"{sorted(set(a) ^ set(b))}") and ok
        for attr, rb in b.items():
            ra = a.get(attr)
            if ra is None or attr in skip_attrs:
                continue
            w = f"{label}: {name}.{attr}"
            if rb["kind"] != ra["kind"]:
                ok = ctx.require(False, f"{w} kind", f"{rb['kind']} -> {ra['kind']}") and ok
                continue
            if rb["kind"] == "value":
                ok = _cmp_value(ctx, rb, ra, w, identity, values, graph) and ok
            elif rb["kind"] == "dict":
                if identity:
                    ok = ctx.require(rb["ident"] == ra["ident"], f"{w} is the very same dict object") and ok
                ok = ctx.require(sorted(rb["entries"]) == sorted(ra["entries"]), f"{w} keys",
                                 f"{sorted(rb['entries'])} -> {sorted(ra['entries'])}") and ok
                for k, eb in rb["entries"].items():
                    if k in ra["entries"]:
                        ok = _cmp_value(ctx, eb, ra["entries"][k], f"{w}[{k}]", identity, values, graph) and ok
            elif rb["kind"] == "link":
                ok = ctx.require(rb["target"] == ra["target"], f"{w} link target", f"{rb['target']} -> {ra['target']}") and ok
                if identity:
                    ok = ctx.require(rb["ident"] == ra["ident"] and rb["container"] == ra["container"],
                                     f"{w} is the very same link object, still attached") and ok
            elif rb["kind"] == "list":
                ok = ctx.require(rb["targets"] == ra["targets"], f"{w} list content",
                                 f"{rb['targets']} -> {ra['targets']}") and ok
                if identity:
                    ok = ctx.require(rb["ident"] == ra["ident"] and rb["wrappers"] == ra["wrappers"]
                                     and rb["container"] == ra["container"],
                                     f"{w} is the very same list object, still attached") and ok
            elif rb["kind"] in ("plain", "containers"):
                ok = ctx.require(rb["value"] == ra["value"], f"{w} unchanged", f"{rb['value']} -> {ra['value']}") and ok
    return ok


def _cmp_value(ctx, rb, ra, w, identity, values, graph):
    ok = True
    if identity:
        ok = ctx.require(rb["ident"] == ra["ident"], f"{w} is the very same object") and ok
        ok = ctx.require(rb["container"] == ra["container"], f"{w} still attached to its container",
                         f"{rb['container']} -> {ra['container']}") and ok
    if values:
        ok = V.compare_phys(ctx, ra["phys"], rb["phys"], f"{w} value", missing_is_zero=False) and ok
    if graph:
        ok = ctx.require(rb["anc"] == ra["anc"], f"{w} direct ancestors unchanged") and ok
        ok = ctx.require(sorted(rb["chi"]) == sorted(ra["chi"]), f"{w} direct children unchanged",
                         f"{len(rb['chi'])} -> {len(ra['chi'])}") and ok
    return ok
