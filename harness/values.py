"""Physical values of explainable objects as plain cells {timestamp|None: base-unit magnitude}, comparisons and
snapshots shared by the harnesses."""
from fractions import Fraction

import pandas as pd

from efootprint.abstract_modeling_classes.explainable_object_base_class import ExplainableObject
from efootprint.abstract_modeling_classes.explainable_object_dict import ExplainableObjectDict
from efootprint.abstract_modeling_classes.explainable_objects import (
    EmptyExplainableObject, ExplainableHourlyQuantities, ExplainableQuantity)
from efootprint.abstract_modeling_classes.list_linked_to_modeling_obj import ListLinkedToModelingObj
from efootprint.abstract_modeling_classes.modeling_object import ModelingObject
from efootprint.abstract_modeling_classes.contextual_modeling_object_attribute import ContextualModelingObjectAttribute
from efootprint.constants.units import u
from sx.core import float_to_fraction, Sym

_FACTOR = {}


def base_factor(unit):
    """(exact rational factor to base units, base units string)"""
    key = str(unit)
    r = _FACTOR.get(key)
    if r is None:
        q = u.Quantity(1.0, unit).to_base_units()
        r = (float_to_fraction(float(q.magnitude)), str(q.units), dict(q.dimensionality))
        _FACTOR[key] = r
    return r


def _scale(m, f):
    if f == 1:
        return m
    if isinstance(m, Sym):
        return m * f
    # concrete numbers: stay in floats (replay) — exact enough for the tolerance used
    return float(m) * float(f)


def utc_key(ts):
    ts = pd.Timestamp(ts)
    if ts.tzinfo is not None:
        ts = ts.tz_convert("UTC")
    return ts


def phys(ev):
    """-> (dims or None, {key: magnitude in base units}) ; key None for scalars."""
    if isinstance(ev, EmptyExplainableObject) or ev is None:
        return None, {}
    if isinstance(ev, ExplainableQuantity):
        f, bu, dims = base_factor(ev.value.units)
        return bu, {None: _scale(ev.value.magnitude, f)}
    if isinstance(ev, ExplainableHourlyQuantities):
        df = ev.value
        unit = df.dtypes.iloc[0].units
        f, bu, dims = base_factor(unit)
        data = df["value"].values._data
        return bu, {utc_key(ts): _scale(m, f) for ts, m in zip(df.index, data)}
    if isinstance(ev, ExplainableObject):
        return "object", {None: ev.value}
    raise TypeError(f"phys: unsupported {type(ev)}")


def quantity_base(q):
    f, bu, dims = base_factor(q.units)
    return bu, _scale(q.magnitude, f)


def compare_phys(ctx, a, b, label, missing_is_zero=True):
    """a, b explainable values (or phys tuples).  States one eq obligation per cell on the union of keys."""
    da, ca = a if isinstance(a, tuple) else phys(a)
    db, cb = b if isinstance(b, tuple) else phys(b)
    ok = True
    if da is not None and db is not None and da != db:
        ctx.require(False, f"{label}: dimension", f"{da} vs {db}")
        return False
    if da == "object" or db == "object":
        return ctx.require(ca.get(None) == cb.get(None), f"{label}: object value", f"{ca} vs {cb}")
    keys = sorted(set(ca) | set(cb), key=lambda k: (k is not None, str(k)))
    if not missing_is_zero and set(ca) != set(cb):
        ctx.require(False, f"{label}: index", f"{sorted(map(str, set(ca) ^ set(cb)))[:4]}")
        ok = False
    for k in keys:
        r = ctx.eq(ca.get(k, 0), cb.get(k, 0), f"{label}[{_kstr(k)}]" if k is not None else label)
        ok = ok and bool(r)
    return ok


def _kstr(k):
    return k.strftime("%m-%dT%H") if k is not None else ""


def calc_attr_items(obj):
    """(attr_label, explainable value) for every calculated attribute of obj, dict entries expanded by key name."""
    out = []
    for attr in obj.calculated_attributes:
        v = getattr(obj, attr)
        if isinstance(v, ExplainableObjectDict):
            for key, val in v.items():
                kn = key.name if isinstance(key, (ModelingObject, ContextualModelingObjectAttribute)) else str(key)
                out.append((f"{attr}[{kn}]", val))
            out.append((f"{attr}#keys", sorted(
                (key.name if hasattr(key, "name") else str(key)) for key in v.keys())))
        else:
            out.append((attr, v))
    return out


def all_objects(objs):
    """ModelingObjects of a built dict (name -> object), system last."""
    return [(n, o) for n, o in objs.items() if isinstance(o, ModelingObject)]


def system_objects(system):
    """Objects reachable from the system by the harness's own forward walk (not System.all_linked_objects)."""
    seen, order = {}, []

    def visit(o):
        o = getattr(o, "_value", o)
        if id(o) in seen:
            return
        seen[id(o)] = o
        order.append(o)
        for k, v in o.__dict__.items():
            if isinstance(v, ContextualModelingObjectAttribute):
                visit(v._value)
            elif isinstance(v, ListLinkedToModelingObj):
                for e in v:
                    visit(e)
            elif isinstance(v, ModelingObject):
                visit(v)
    visit(system)
    return order


def _rank(o):
    """position of the object's class in the canonical computation order (upstream first)"""
    from efootprint.core.all_classes_in_order import CANONICAL_COMPUTATION_ORDER
    if not isinstance(o, ModelingObject):
        return 99
    for i, c in enumerate(CANONICAL_COMPUTATION_ORDER):
        if isinstance(getattr(o, "_value", o), c):
            return i
    return 98


def compare_systems(ctx, objs_a, objs_b, label, names=None, skip=()):
    """Every calculated attribute of every same-named object physically equal."""
    ok = True
    for name, oa in sorted(objs_a.items(), key=lambda kv: _rank(kv[1])):
        if not isinstance(oa, ModelingObject) or name not in objs_b:
            continue
        if names is not None and name not in names:
            continue
        ob = objs_b[name]
        ia, ib = dict(calc_attr_items(oa)), dict(calc_attr_items(ob))
        for attr in ia:
            if attr in skip or f"{name}.{attr}" in skip:
                continue
            va, vb = ia[attr], ib.get(attr)
            if attr.endswith("#keys"):
                ok = ctx.require(va == vb, f"{label}:{name}.{attr}", f"{va} vs {vb}") and ok
                continue
            if vb is None and attr not in ib:
                ok = ctx.require(False, f"{label}:{name}.{attr} missing on reference side") and ok
                continue
            ok = compare_phys(ctx, va, vb, f"{label}:{name}.{attr}") and ok
    return ok


def observe_system(ctx, objs, prefix=""):
    """Record total footprint cells (and a few others) for the fidelity replay."""
    sysobj = objs.get("system")
    if sysobj is None:
        return
    d, cells = phys(sysobj.total_footprint)
    for k, v in cells.items():
        ctx.observe(f"{prefix}total[{_kstr(k)}]", v)
