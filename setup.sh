#!/bin/bash
# Build the overlay virtualenv used by every check: /venv's packages + /repo + z3-solver from the offline wheelhouse.
# Idempotent; safe to call from concurrent checks (lock).
set -e
cd "$(dirname "$0")"
VENV=/verif/.venv
[ "$(pwd)" != "/verif" ] && VENV="$(pwd)/.venv"
exec 9>"${VENV}.lock"
flock 9
if [ ! -x "$VENV/bin/python" ] || ! "$VENV/bin/python" -c "import z3, pint, pandas" >/dev/null 2>&1; then
  rm -rf "$VENV"
  /venv/bin/python -m venv "$VENV"
  SP=$("$VENV/bin/python" -c "import sysconfig; print(sysconfig.get_paths()['purelib'])")
  printf "import site; site.addsitedir('/venv/lib/python3.12/site-packages')\n" > "$SP/_overlay.pth"
  PIP_NO_INDEX=1 "$VENV/bin/pip" install -q --no-index --find-links /opt/veriftools/wheels z3-solver
fi
"$VENV/bin/python" -c "import z3; print('setup ok: z3', z3.get_version_string())"
