"""sx.core — dynamic symbolic execution of the real e-footprint code through numeric proxies.

A harness is an ordinary Python function ``h(ctx, **params)`` that builds real e-footprint objects out of numbers
obtained from ``ctx.var(...)`` and calls the real API.  In *symbolic* mode those numbers are ``Sym`` proxies wrapping
z3 real terms; every ``bool()`` taken on a symbolic comparison is a decision explored on both sides (depth first,
prefix re-execution); obligations stated with ``ctx.eq / ctx.le / ctx.holds`` are decided by z3 under the path
condition.  In *concrete* mode (replay / fidelity) the same harness receives plain floats and the obligations are
evaluated numerically against the untouched code.
"""
import math
import random
import numbers
import os
import sys
import time
import traceback
from fractions import Fraction

import z3

REPO = os.environ.get("VERIF_REPO", "/repo")


class PathAbort(BaseException):
    """Current path is infeasible / must be dropped (BaseException: never swallowed by `except Exception`)."""


class EngineError(Exception):
    pass


class Budget(BaseException):
    pass


# ----------------------------------------------------------------------------------------------------------------
# number <-> z3
# ----------------------------------------------------------------------------------------------------------------
_FLOAT_CACHE = {}


def float_to_fraction(f: float) -> Fraction:
    """Rational denoted by a float constant met by a proxy (unit factors, defaults).  Abstraction, see DESIGN §3.1."""
    r = _FLOAT_CACHE.get(f)
    if r is not None:
        return r
    if f != f or f in (float("inf"), float("-inf")):
        raise ValueError("non finite constant met by symbolic value")
    if f == int(f) and abs(f) < 2 ** 62:
        r = Fraction(int(f))
    else:
        rep = repr(f)
        mant = rep.lower().split("e")[0].replace("-", "").replace(".", "").lstrip("0")
        if len(mant) <= 12:
            r = Fraction(rep)
        else:
            # scale into [1, 10) and look for a small rational within 4 ulp
            k = -int(math.floor(math.log10(abs(f))))
            scale = Fraction(10) ** k
            m = Fraction(f) * scale
            cand = m.limit_denominator(10 ** 7)
            ulp = Fraction(math.ulp(f)) * scale
            if abs(cand - m) <= 4 * ulp:
                r = cand / scale
            else:
                r = Fraction(rep)
    _FLOAT_CACHE[f] = r
    return r


def to_z3(x):
    """z3 real term for a proxy or a concrete number; None if x is not numeric."""
    if isinstance(x, Sym):
        return x.e
    if isinstance(x, bool):
        return z3.RealVal(int(x))
    if isinstance(x, numbers.Integral):
        return z3.RealVal(int(x))
    if isinstance(x, Fraction):
        return z3.RealVal(x)
    if isinstance(x, numbers.Real):
        return z3.RealVal(float_to_fraction(float(x)))
    try:
        import numpy as np
        if isinstance(x, np.ndarray) and x.ndim == 0:
            return to_z3(x.item())
    except Exception:
        pass
    return None


def frac_of(v) -> Fraction:
    """Fraction of a z3 numeral (model value)."""
    if z3.is_int_value(v):
        return Fraction(v.as_long())
    if z3.is_rational_value(v):
        return Fraction(v.numerator_as_long(), v.denominator_as_long())
    if z3.is_algebraic_value(v):
        a = v.approx(30)
        return Fraction(a.numerator_as_long(), a.denominator_as_long())
    raise EngineError(f"not a numeral: {v}")


def free_vars(e, acc=None, seen=None):
    acc = set() if acc is None else acc
    seen = set() if seen is None else seen
    stack = [e]
    while stack:
        t = stack.pop()
        i = t.get_id()
        if i in seen:
            continue
        seen.add(i)
        if z3.is_const(t) and t.decl().kind() == z3.Z3_OP_UNINTERPRETED:
            acc.add(str(t))
        else:
            stack.extend(t.children())
    return acc



_ND_CACHE = {}


def _numden(t, depth=0):
    """(numerator, denominator) z3 terms of a rational-function term; non-arithmetic subterms are atoms."""
    i = t.get_id()
    ent = _ND_CACHE.get(i)
    if ent is not None and ent[0].eq(t):   # the cached term is kept alive, so its id cannot have been recycled
        return ent[1]
    one = z3.RealVal(1)
    r = None
    if z3.is_app(t) and t.sort().kind() == z3.Z3_REAL_SORT:
        k = t.decl().kind()
        ch = t.children()
        if k == z3.Z3_OP_DIV:
            (n1, d1), (n2, d2) = _numden(ch[0]), _numden(ch[1])
            r = (n1 * d2, d1 * n2)
        elif k == z3.Z3_OP_MUL:
            n, d = one, one
            for c in ch:
                cn, cd = _numden(c)
                n, d = n * cn, d * cd
            r = (n, d)
        elif k in (z3.Z3_OP_ADD, z3.Z3_OP_SUB):
            n, d = _numden(ch[0])
            for c in ch[1:]:
                cn, cd = _numden(c)
                if cd.eq(d):
                    n = n + cn if k == z3.Z3_OP_ADD else n - cn
                else:
                    n = (n * cd + cn * d) if k == z3.Z3_OP_ADD else (n * cd - cn * d)
                    d = d * cd
            r = (n, d)
        elif k == z3.Z3_OP_UMINUS:
            n, d = _numden(ch[0])
            r = (-n, d)
    if r is None:
        r = (t, one)
    if len(_ND_CACHE) > 100000:
        _ND_CACHE.clear()
    _ND_CACHE[i] = (t, r)
    return r


def poly_equal(a, b):
    """True if a == b as rational functions (denominators assumed non-zero): decided by expanding
    n_a*d_b - n_b*d_a to a sum of monomials.  False means 'not shown', not 'different'."""
    try:
        (na, da), (nb, db) = _numden(a), _numden(b)
        diff = z3.simplify(na * db - nb * da, som=True)
        return (z3.is_rational_value(diff) or z3.is_int_value(diff)) and frac_of(diff) == 0
    except Exception:
        return False


def portfolio_check(assertions, total_ms, stats=None, want_model=False):
    """z3's run time on small mixed queries varies by orders of magnitude with term numbering; a few short attempts
    with different seeds/arith back ends are far more reliable than one long attempt.  First definite answer wins."""
    plans = [(0.15, dict(random_seed=0)), (0.15, dict(random_seed=11, **{"smt.arith.solver": 2})),
             (0.2, dict(random_seed=23, **{"smt.arith.solver": 6})), (0.5, dict(random_seed=5))]
    last = "unknown"
    for frac, opts in plans:
        sv = z3.Solver()
        sv.set("timeout", max(200, int(total_ms * frac)))
        for k, v in opts.items():
            try:
                sv.set(k, v)
            except z3.Z3Exception:
                pass
        for a in assertions:
            sv.add(a)
        t0 = time.time()
        r = str(sv.check())
        if stats is not None:
            stats["queries"] += 1
            stats["solver_s"] += time.time() - t0
        if r in ("sat", "unsat"):
            return r, (sv.model() if (r == "sat" and want_model) else None)
        last = r
    return last, None


def _maximal_nonlinear(exprs):
    """Distinct maximal non-linear subterms (products of >= 2 non-numerals, divisions by a non-numeral)."""
    found, visited = {}, set()

    def num(t):
        return z3.is_rational_value(t) or z3.is_int_value(t)
    stack = list(exprs)
    while stack:
        t = stack.pop()
        i = t.get_id()
        if i in visited:
            continue
        visited.add(i)
        if z3.is_app(t):
            k = t.decl().kind()
            ch = t.children()
            if k == z3.Z3_OP_MUL and sum(1 for c in ch if not num(c)) >= 2:
                found[i] = t
                continue
            if k in (z3.Z3_OP_DIV, z3.Z3_OP_IDIV, z3.Z3_OP_MOD, z3.Z3_OP_POWER) and not num(ch[1]):
                found[i] = t
                continue
            stack.extend(ch)
    return list(found.values())


def _innermost_toint(exprs):
    """Distinct ToInt applications whose argument contains no further ToInt."""
    found, seen = {}, {}

    def has_toint(t):
        i = t.get_id()
        r = seen.get(i)
        if r is not None:
            return r
        r = False
        if z3.is_app(t):
            if t.decl().kind() == z3.Z3_OP_TO_INT:
                r = True
            for c in t.children():
                if has_toint(c):
                    r = True
        seen[i] = r
        return r

    def walk(t, visited):
        i = t.get_id()
        if i in visited:
            return
        visited.add(i)
        if not seen.get(i, has_toint(t)):
            return
        if z3.is_app(t) and t.decl().kind() == z3.Z3_OP_TO_INT:
            if not has_toint(t.arg(0)):
                found[i] = t
                return
        for c in t.children():
            walk(c, visited)
    vis = set()
    for e in exprs:
        has_toint(e)
        walk(e, vis)
    return list(found.values())


# ----------------------------------------------------------------------------------------------------------------
# proxies
# ----------------------------------------------------------------------------------------------------------------
class SymBool:
    __slots__ = ("e",)

    def __init__(self, e):
        self.e = e

    def __bool__(self):
        return CTX().decide(self.e)

    def _o(self, o):
        if isinstance(o, SymBool):
            return o.e
        return z3.BoolVal(bool(o))

    def __and__(self, o):
        return SymBool(z3.And(self.e, self._o(o)))

    __rand__ = __and__

    def __or__(self, o):
        return SymBool(z3.Or(self.e, self._o(o)))

    __ror__ = __or__

    def __invert__(self):
        return SymBool(z3.Not(self.e))

    def __repr__(self):
        return f"SymBool({self.e})"


_ZERO = None
_ONE = None


class Sym:
    """Proxy for a real number: wraps a z3 Real term.  Registered with numbers.Real so pint/pandas treat it as a scalar."""
    __slots__ = ("e",)

    def __init__(self, e):
        self.e = e

    # -- arithmetic ----------------------------------------------------------------------------------------------
    def _bin(self, o, f):
        oz = to_z3(o)
        if oz is None:
            return NotImplemented
        OPS[0] += 1
        return Sym(f(self.e, oz))

    def __add__(self, o):
        if type(o) in (int, float) and o == 0:
            return self
        return self._bin(o, lambda a, b: a + b)

    def __radd__(self, o):
        if type(o) in (int, float) and o == 0:
            return self
        return self._bin(o, lambda a, b: b + a)

    def __sub__(self, o):
        if type(o) in (int, float) and o == 0:
            return self
        return self._bin(o, lambda a, b: a - b)

    def __rsub__(self, o):
        return self._bin(o, lambda a, b: b - a)

    def __mul__(self, o):
        if type(o) in (int, float) and o == 1:
            return self
        return self._bin(o, lambda a, b: a * b)

    def __rmul__(self, o):
        if type(o) in (int, float) and o == 1:
            return self
        return self._bin(o, lambda a, b: b * a)

    def __truediv__(self, o):
        if type(o) in (int, float) and o == 1:
            return self
        oz = to_z3(o)
        if oz is None:
            return NotImplemented
        CTX().note_divisor(oz)
        OPS[0] += 1
        return Sym(self.e / oz)

    def __rtruediv__(self, o):
        oz = to_z3(o)
        if oz is None:
            return NotImplemented
        CTX().note_divisor(self.e)
        OPS[0] += 1
        return Sym(oz / self.e)

    def __neg__(self):
        return Sym(-self.e)

    def __pos__(self):
        return self

    def __abs__(self):
        return Sym(z3.If(self.e >= 0, self.e, -self.e))

    def __pow__(self, o):
        if isinstance(o, Sym):
            return NotImplemented
        if o == 1:
            return self
        if o == 0:
            return 1
        if o == -1:
            CTX().note_divisor(self.e)
            return Sym(1 / self.e)
        if o == 2:
            return Sym(self.e * self.e)
        if o == -2:
            CTX().note_divisor(self.e)
            return Sym(1 / (self.e * self.e))
        if isinstance(o, numbers.Integral) and 0 < o <= 6:
            r = self.e
            for _ in range(int(o) - 1):
                r = r * self.e
            return Sym(r)
        return NotImplemented

    # -- comparisons ---------------------------------------------------------------------------------------------
    def _cmp(self, o, f):
        oz = to_z3(o)
        if oz is None:
            return NotImplemented
        return SymBool(f(self.e, oz))

    def __lt__(self, o):
        return self._cmp(o, lambda a, b: a < b)

    def __le__(self, o):
        return self._cmp(o, lambda a, b: a <= b)

    def __gt__(self, o):
        return self._cmp(o, lambda a, b: a > b)

    def __ge__(self, o):
        return self._cmp(o, lambda a, b: a >= b)

    def __eq__(self, o):
        return self._cmp(o, lambda a, b: a == b)

    def __ne__(self, o):
        return self._cmp(o, lambda a, b: a != b)

    __hash__ = object.__hash__

    def __bool__(self):
        return CTX().decide(self.e != 0)

    # -- integer parts -------------------------------------------------------------------------------------------
    def __ceil__(self):
        return SymInt(-z3.ToInt(-self.e))

    def __floor__(self):
        return SymInt(z3.ToInt(self.e))

    def __trunc__(self):
        return SymInt(z3.If(self.e >= 0, z3.ToInt(self.e), -z3.ToInt(-self.e)))

    def __floordiv__(self, o):
        oz = to_z3(o)
        if oz is None:
            return NotImplemented
        CTX().note_divisor(oz)
        return SymInt(z3.ToInt(self.e / oz))

    def __rfloordiv__(self, o):
        oz = to_z3(o)
        if oz is None:
            return NotImplemented
        CTX().note_divisor(self.e)
        return SymInt(z3.ToInt(oz / self.e))

    def __mod__(self, o):
        oz = to_z3(o)
        if oz is None:
            return NotImplemented
        CTX().note_divisor(oz)
        return Sym(self.e - oz * z3.ToReal(z3.ToInt(self.e / oz)))

    def __rmod__(self, o):
        oz = to_z3(o)
        if oz is None:
            return NotImplemented
        CTX().note_divisor(self.e)
        return Sym(oz - self.e * z3.ToReal(z3.ToInt(oz / self.e)))

    def __divmod__(self, o):
        return self.__floordiv__(o), self.__mod__(o)

    def __round__(self, n=None):
        # round-half-up on the reals; Python/numpy round half to even: the two differ only on exact ties (see DESIGN)
        if n is None:
            return SymInt(z3.ToInt(self.e + z3.RealVal(Fraction(1, 2))))
        n = int(n or 0)
        sc = z3.RealVal(Fraction(10) ** n)
        return Sym(z3.ToReal(z3.ToInt(self.e * sc + z3.RealVal(Fraction(1, 2)))) / sc)

    def rint(self):  # numpy object loop for np.rint / np.round
        return self.__round__(0)

    def conjugate(self):
        return self

    def sqrt(self):
        raise TypeError("sqrt of a symbolic real is outside the encoding")

    @property
    def real(self):
        return self

    @property
    def imag(self):
        return 0

    def __float__(self):
        raise TypeError("symbolic real realised to float (would lose generality)")

    def __array_ufunc__(self, ufunc, method, *inputs, **kwargs):
        """numpy ufuncs applied to a bare proxy (e.g. pint's np.ceil(magnitude)): answer with a scalar proxy like numpy
        answers with a numpy scalar for a float; anything involving real arrays goes through numpy's object loops."""
        import numpy as np
        if method == "__call__" and not kwargs and all(isinstance(x, (Sym, int, float, Fraction)) for x in inputs):
            name = ufunc.__name__
            # numpy scalars (np.float64 is a float) would dispatch `a + b` back to this method for ever
            inputs = tuple(x.item() if isinstance(x, np.generic) else x for x in inputs)
            a = inputs[0]
            b = inputs[1] if len(inputs) > 1 else None
            one = {"ceil": lambda: math.ceil(a), "floor": lambda: math.floor(a), "absolute": lambda: abs(a),
                   "fabs": lambda: abs(a), "negative": lambda: -a, "positive": lambda: a, "rint": lambda: a.rint(),
                   "trunc": lambda: math.trunc(a)}
            two = {"add": lambda: a + b, "subtract": lambda: a - b, "multiply": lambda: a * b,
                   "true_divide": lambda: a / b, "divide": lambda: a / b,
                   "maximum": lambda: ite(a >= b, a, b), "minimum": lambda: ite(a <= b, a, b),
                   "greater": lambda: a > b, "greater_equal": lambda: a >= b, "less": lambda: a < b,
                   "less_equal": lambda: a <= b, "equal": lambda: a == b, "not_equal": lambda: a != b,
                   "floor_divide": lambda: a // b, "remainder": lambda: a % b}
            if len(inputs) == 1 and name in one and isinstance(a, Sym):
                return one[name]()
            if len(inputs) == 2 and name in two:
                return two[name]()
        conv = [np.asarray(x, dtype=object) if isinstance(x, Sym) else x for x in inputs]
        return getattr(ufunc, method)(*conv, **kwargs)

    def __int__(self):
        return int(self.__trunc__())

    def __repr__(self):
        # cheap on purpose: explain()/str() of the real code format every value; printing big z3 terms is very slow
        if z3.is_const(self.e):
            return f"Sym({self.e})"
        return f"Sym(#{self.e.get_id()})"

    def __format__(self, spec):
        return repr(self)

    def __copy__(self):
        return self

    def __deepcopy__(self, memo):
        return self


class SymInt(Sym):
    """Integer-valued proxy (result of ceil/floor).  Stays lazy in arithmetic; concretises by solver-guided forking
    only where Python needs a machine integer (__index__/__int__) or when combined with a non-numeric operand."""
    __slots__ = ("ie",)

    def __init__(self, ie):
        self.ie = ie
        Sym.__init__(self, z3.ToReal(ie))

    def __index__(self):
        ctx = CTX()
        lo, hi = ctx.int_range
        return ctx.choose_int(self.ie, lo, hi)

    __int__ = __index__

    def _other(self, o):
        if isinstance(o, SymInt):
            return o.ie
        if isinstance(o, bool):
            return z3.IntVal(int(o))
        if isinstance(o, numbers.Integral) and not isinstance(o, Sym):
            return z3.IntVal(int(o))
        if isinstance(o, (Sym, numbers.Real, Fraction)):
            return None
        try:
            import pint
            if isinstance(o, (pint.Unit, pint.Quantity)):
                return NotImplemented
        except Exception:
            pass
        import numpy as np
        if isinstance(o, np.ndarray):
            return NotImplemented
        return "concretise"

    def _ib(self, o, f, real_fallback, conc):
        r = self._other(o)
        if r is NotImplemented:
            return NotImplemented
        if r is None:
            return real_fallback(self, o)
        if isinstance(r, str):
            return conc(int(self), o)
        return SymInt(f(self.ie, r))

    def __add__(self, o):
        return self._ib(o, lambda a, b: a + b, Sym.__add__, lambda k, x: k + x)

    def __radd__(self, o):
        return self._ib(o, lambda a, b: b + a, Sym.__radd__, lambda k, x: x + k)

    def __sub__(self, o):
        return self._ib(o, lambda a, b: a - b, Sym.__sub__, lambda k, x: k - x)

    def __rsub__(self, o):
        return self._ib(o, lambda a, b: b - a, Sym.__rsub__, lambda k, x: x - k)

    def __mul__(self, o):
        return self._ib(o, lambda a, b: a * b, Sym.__mul__, lambda k, x: k * x)

    def __rmul__(self, o):
        return self._ib(o, lambda a, b: b * a, Sym.__rmul__, lambda k, x: x * k)

    def __neg__(self):
        return SymInt(-self.ie)

    def __floordiv__(self, o):
        if isinstance(o, numbers.Integral) and not isinstance(o, (Sym, bool)) and o > 0:
            return SymInt(self.ie / z3.IntVal(int(o)))      # z3 integer division = floor for a positive divisor
        if isinstance(o, SymInt):
            return Sym.__floordiv__(self, o)
        return Sym.__floordiv__(self, o)

    def __mod__(self, o):
        if isinstance(o, numbers.Integral) and not isinstance(o, (Sym, bool)) and o > 0:
            return SymInt(self.ie % z3.IntVal(int(o)))
        return Sym.__mod__(self, o)

    def __ceil__(self):
        return self

    def __floor__(self):
        return self

    def __trunc__(self):
        return self

    def __round__(self, n=None):
        return self

    def rint(self):
        return self

    def __repr__(self):
        if z3.is_const(self.ie):
            return f"SymInt({self.ie})"
        return f"SymInt(#{self.ie.get_id()})"


numbers.Real.register(Sym)
OPS = [0]


def is_sym(x):
    return isinstance(x, Sym)


# ----------------------------------------------------------------------------------------------------------------
# execution context
# ----------------------------------------------------------------------------------------------------------------
_CTX = [None]
_FP_CACHE = {}


def CTX():
    c = _CTX[0]
    if c is None:
        raise EngineError("symbolic value used outside of an engine run")
    return c


def set_ctx(c):
    _CTX[0] = c


def _where(tb):
    """(exception site) innermost efootprint frame of a traceback."""
    site = None
    for fs in traceback.extract_tb(tb):
        if "/efootprint/" in fs.filename:
            site = f"{os.path.basename(fs.filename)}:{fs.name}"
    return site or "harness"


def where(exc):
    """site of an exception: innermost efootprint frame ('file.py:function') or 'harness'."""
    return _where(exc.__traceback__)


class Obligation:
    __slots__ = ("label", "status", "detail", "time", "kind")

    def __init__(self, label, status, detail=None, t=0.0, kind="solver"):
        self.label, self.status, self.detail, self.time, self.kind = label, status, detail, t, kind


class BaseCtx:
    symbolic = False

    def __init__(self):
        self.obligations = []
        self.observed = {}
        self.notes = []
        self.counters = {}

    def count(self, key, n=1):
        self.counters[key] = self.counters.get(key, 0) + n

    def note(self, msg):
        self.notes.append(msg)


class SymCtx(BaseCtx):
    """One symbolic run of a harness along a decision prefix."""
    symbolic = True
    int_range = (-2, 12)

    def __init__(self, prefix, stats, solver_timeout_ms=20000, seed=0):
        super().__init__()
        self.prefix = list(prefix)
        self.trace = []          # booleans taken
        self.lits = []           # z3 literals taken (path condition)
        self.assumptions = []    # z3 preconditions
        self.vars = {}           # name -> (z3 const, spec)
        self.solver = z3.Solver()
        self.solver.set("timeout", min(6000, solver_timeout_ms))
        self.solver.set("random_seed", seed % (2 ** 30))
        self.model = None
        self.stats = stats
        self.siblings = []       # prefixes to explore later
        self.divisors = []
        self.timeout_ms = solver_timeout_ms
        self.decision_hook = None
        self.candidates = []     # (label, model inputs) solver found a counterexample
        self.assume_nonzero_divisors = True   # C02 switches this off and proves the divisors non-zero instead
        self._div_seen = set()
        self.quick_ms = 3000
        self.rewrites = []
        self._rewrite_ids = set()
        self.observed_fp = {}
        self.max_candidates = 10      # witnesses extracted per path; further failing obligations are only counted

    # -- inputs --------------------------------------------------------------------------------------------------
    def var(self, name, lo=None, hi=None, lo_strict=False, hi_strict=False, integer=False, nice=None):
        """A fresh symbolic input.  `nice`=(lo,hi) is a soft box used only when asking for witnesses/replay values."""
        if name in self.vars:
            raise EngineError(f"duplicate variable {name}")
        if integer:
            c = z3.Int(name)
            s = SymInt(c)
            e = c
        else:
            c = z3.Real(name)
            s = Sym(c)
            e = c
        self.vars[name] = (c, dict(lo=lo, hi=hi, lo_strict=lo_strict, hi_strict=hi_strict, integer=integer, nice=nice))
        if lo is not None:
            self.assume_z3(e > to_z3(lo) if lo_strict else e >= to_z3(lo))
        if hi is not None:
            self.assume_z3(e < to_z3(hi) if hi_strict else e <= to_z3(hi))
        return s

    def const(self, value):
        return value

    def assume_z3(self, cond):
        self.solver.add(cond)
        self.assumptions.append(cond)
        self.model = None

    def assume(self, cond):
        if isinstance(cond, SymBool):
            self.assume_z3(cond.e)
        elif not cond:
            raise PathAbort("precondition false")

    # -- decisions -----------------------------------------------------------------------------------------------
    def _check(self, extra=None):
        self.stats["queries"] += 1
        t0 = time.time()
        if extra is not None:
            self.solver.push()
            self.solver.add(extra)
        r = str(self.solver.check())
        m = self.solver.model() if r == "sat" else None
        if extra is not None:
            self.solver.pop()
        self.stats["solver_s"] += time.time() - t0
        if r == "unknown":
            self.stats["incremental_unknown"] = self.stats.get("incremental_unknown", 0) + 1
            r, m = self._fresh_check([extra] if extra is not None else [], self.timeout_ms)
        return r, m

    def _ensure_model(self):
        if self.model is None:
            r, m = self._check()
            if r == "unsat":
                raise PathAbort("path condition unsatisfiable")
            if r != "sat":
                self.stats["unknown_pc"] += 1
                raise PathAbort("path condition unknown")
            self.model = m
        return self.model

    def decide(self, cond):
        if z3.is_true(cond):
            return True
        if z3.is_false(cond):
            return False
        if self.decision_hook is not None:
            self.decision_hook(cond)
        i = len(self.trace)
        self.stats["decisions"] += 1
        if i < len(self.prefix):
            val = self.prefix[i]
            if not isinstance(val, bool):
                raise EngineError("replay divergence: integer choice recorded where a boolean decision happens")
        else:
            m = self._ensure_model()
            mv = m.eval(cond, model_completion=True)
            if z3.is_true(mv):
                val = True
            elif z3.is_false(mv):
                val = False
            else:
                # model could not evaluate (e.g. division by zero term): decide by query
                r, _ = self._check(cond)
                val = r == "sat"
                self.model = None
            other = z3.Not(cond) if val else cond
            r, _m2 = self._check(other)
            if r == "sat":
                self.siblings.append(self.trace + [not val])
            elif r != "unsat":
                self.stats["unknown_branch"] += 1
                self.siblings.append(self.trace + [not val])
        lit = cond if val else z3.Not(cond)
        self.trace.append(val)
        self.lits.append(lit)
        self.solver.add(lit)
        if self.model is not None and i < len(self.prefix):
            self.model = None
        return val

    def choose_int(self, ie, lo, hi):
        """Concretise an integer term: fork over every solver-feasible value in lo..hi (one run per value)."""
        v0 = z3.simplify(ie)
        if z3.is_int_value(v0):
            return v0.as_long()
        i = len(self.trace)
        excluded = []
        self.stats["decisions"] += 1
        if i < len(self.prefix):
            el = self.prefix[i]
            if isinstance(el, tuple) and el[0] == "i":
                v = el[1]
                self.trace.append(el)
                self.lits.append(ie == v)
                self.solver.add(ie == v)
                self.model = None
                return v
            if isinstance(el, tuple) and el[0] == "x":
                excluded = list(el[1])
            else:
                raise EngineError("replay divergence: boolean decision recorded where an integer choice happens")
        if not excluded:
            # a value forced by the path condition is taken whatever its size (e.g. a duration of 8766 hours)
            m0 = self._ensure_model()
            v0 = m0.eval(ie, model_completion=True)
            if z3.is_int_value(v0) and not (lo <= v0.as_long() <= hi):
                r0, _ = self._check(ie != v0.as_long())
                if r0 == "unsat":
                    v = v0.as_long()
                    self.trace.append(("i", v))
                    self.lits.append(ie == v)
                    self.solver.add(ie == v)
                    return v
        box = z3.And(ie >= lo, ie <= hi, *[ie != k for k in excluded])
        r, m = self._check(box)
        if r != "sat":
            if r != "unsat":
                self.stats["unknown_branch"] += 1
            raise PathAbort("no further integer value")
        v = m.eval(ie, model_completion=True).as_long()
        if not excluded:
            r3, _ = self._check(z3.Or(ie < lo, ie > hi))
            if r3 != "unsat":
                self.stats["int_out_of_range"] = self.stats.get("int_out_of_range", 0) + 1
        r2, _ = self._check(z3.And(box, ie != v))
        if r2 != "unsat":
            self.siblings.append(self.trace + [("x", excluded + [v])])
        self.trace.append(("i", v))
        self.lits.append(ie == v)
        self.solver.add(ie == v)
        self.model = m
        return v

    def choose(self, k, what="choice"):
        """a non-numeric choice among k alternatives, explored like an integer concretisation"""
        if k <= 1:
            return 0
        self._nchoice = getattr(self, "_nchoice", 0) + 1
        c = z3.Int(f"__choice{self._nchoice}")
        self.assume_z3(z3.And(c >= 0, c < k))
        return self.choose_int(c, 0, k - 1)

    def note_divisor(self, dz):
        if z3.is_rational_value(dz) or z3.is_int_value(dz):
            return
        self.divisors.append(dz)
        if self.assume_nonzero_divisors:
            i = dz.get_id()
            if i not in self._div_seen:
                self._div_seen.add(i)
                self.assume_z3(dz != 0)

    # -- obligations ---------------------------------------------------------------------------------------------
    def _decide_obligation(self, label, neg, kind="solver"):
        """neg: z3 formula whose satisfiability (under PC) is a violation."""
        t0 = time.time()
        self.stats["obligations"] += 1
        s = z3.simplify(neg)
        if z3.is_false(s):
            self.stats["syntactic"] += 1
            self.obligations.append(Obligation(label, "syntactic", None, 0.0, kind))
            return True
        if z3.is_app(s) and s.decl().kind() == z3.Z3_OP_DISTINCT and s.num_args() == 2 and poly_equal(s.arg(0), s.arg(1)):
            self.stats["syntactic"] += 1
            self.stats["discharged_by_polynomial_identity"] = self.stats.get("discharged_by_polynomial_identity", 0) + 1
            self.obligations.append(Obligation(label, "syntactic", None, time.time() - t0, kind))
            return True
        if self.rewrites:
            s2 = z3.simplify(self._apply_rewrites(neg))
            if z3.is_false(s2):
                self.stats["syntactic"] += 1
                self.stats["discharged_by_rewriting"] = self.stats.get("discharged_by_rewriting", 0) + 1
                self.obligations.append(Obligation(label, "syntactic", None, time.time() - t0, kind))
                return True
            s = s2
        r, m = self._fresh_check([s], min(self.quick_ms, self.timeout_ms))
        if r == "unknown":
            if self._retry_abstract_nonlinear(s) == "unsat":
                r = "unsat"
                self.stats["unsat_after_nonlinear_abstraction"] = self.stats.get("unsat_after_nonlinear_abstraction", 0) + 1
            elif self._retry_toint_unified(s) == "unsat":
                r = "unsat"
                self.stats["unsat_after_toint_unification"] = self.stats.get("unsat_after_toint_unification", 0) + 1
            else:
                r, m = self._fresh_check([s], self.timeout_ms)
        dt = time.time() - t0
        if r == "unsat":
            self.stats["unsat"] += 1
            self.obligations.append(Obligation(label, "unsat", None, dt, kind))
            return True
        if r == "sat":
            self.stats["sat"] += 1
            if len(self.candidates) < self.max_candidates:
                inputs = self.nice_model(s) or self.model_inputs(m)
                self.candidates.append((label, inputs))
            self.obligations.append(Obligation(label, "sat", str(s)[:300], dt, kind))
            return False
        self.stats["inconclusive"] += 1
        self.obligations.append(Obligation(label, "unknown", str(s)[:200], dt, kind))
        return None

    def _fresh_check(self, extras, timeout_ms):
        """Non-incremental query (lets z3 choose its nlsat-based strategy for pure real arithmetic)."""
        return portfolio_check(list(self.assumptions) + list(self.lits) + list(extras), timeout_ms, self.stats,
                               want_model=True)

    def _retry_abstract_nonlinear(self, neg):
        """Fallback for `unknown`: every maximal non-linear subterm is replaced by a fresh real (same term, same
        variable).  The abstraction only forgets facts, so `unsat` carries over; any other answer is ignored."""
        exprs = [z3.simplify(e) for e in list(self.assumptions) + list(self.lits)
                 + [self._apply_rewrites(e) for e in self.lits] + [neg]]
        terms = _maximal_nonlinear(exprs)
        if not terms:
            return "unknown"
        pairs, reps = [], []
        for i, t in enumerate(terms):
            if t.sort().kind() != z3.Z3_REAL_SORT:
                pairs.append((t, z3.Int(f"__nli{i}")))
                continue
            var = None
            if len(reps) <= 60:
                for (rt, rv) in reps:
                    if poly_equal(t, rt):
                        var = rv
                        break
            if var is None:
                var = z3.Real(f"__nl{i}")
                reps.append((t, var))
            pairs.append((t, var))
        r, _ = portfolio_check([z3.substitute(e, *pairs) for e in exprs], min(self.timeout_ms, 12000), self.stats)
        return r

    def _retry_toint_unified(self, neg):
        """Fallback for `unknown`: every ToInt(arg) is replaced by an integer variable k with k <= arg < k+1
        (equivalent), after merging ToInt terms whose arguments are provably equal under the preconditions.  The
        merged formula is usually decided by rewriting alone.  Only an `unsat` answer is used."""
        exprs = list(self.assumptions) + list(self.lits) + [neg]
        axioms = []
        eqs = z3.Solver()
        eqs.set("timeout", 2000)
        for a in self.assumptions:
            eqs.add(a)
        nfresh = 0
        budget = 400
        has_toint_lits = False
        for _round in range(6):
            terms = _innermost_toint(exprs)
            if not terms:
                break
            reps = []
            pairs = []
            for t in terms:
                arg = t.arg(0)
                target = None
                for (rarg, rk) in reps:
                    if poly_equal(arg, rarg):
                        target = rk
                        break
                    d = z3.simplify(arg - rarg)
                    if z3.is_rational_value(d) or z3.is_int_value(d):
                        if frac_of(d) == 0:
                            target = rk
                            break
                        continue
                    if budget <= 0:
                        continue
                    budget -= 1
                    self.stats["queries"] += 1
                    t0 = time.time()
                    eqs.push()
                    eqs.add(arg != rarg)
                    r = str(eqs.check())
                    eqs.pop()
                    if r == "unknown" and not has_toint_lits:
                        # same question with non-linear subterms abstracted, under the full path condition
                        qs = list(self.assumptions) + list(self.lits) + [arg != rarg]
                        nl = _maximal_nonlinear(qs)
                        prs = [(t_, z3.Real(f"__ne{i_}") if t_.sort().kind() == z3.Z3_REAL_SORT else z3.Int(f"__nei{i_}"))
                               for i_, t_ in enumerate(nl)]
                        s3 = z3.Solver()
                        s3.set("timeout", 2000)
                        for q in qs:
                            s3.add(z3.substitute(q, *prs) if prs else q)
                        self.stats["queries"] += 1
                        r = str(s3.check())
                    self.stats["solver_s"] += time.time() - t0
                    if r == "unsat":
                        target = rk
                        break
                if target is None:
                    nfresh += 1
                    target = z3.Int(f"__k{_round}_{nfresh}")
                    reps.append((arg, target))
                    axioms.append(z3.And(z3.ToReal(target) <= arg, arg < z3.ToReal(target) + 1))
                pairs.append((t, target))
            exprs = [z3.substitute(e, *pairs) for e in exprs]
            axioms = [z3.substitute(e, *pairs) for e in axioms]
        s2 = z3.Solver()
        s2.set("timeout", self.timeout_ms)
        goal = z3.simplify(exprs[-1])
        if z3.is_false(goal):
            return "unsat"
        r, _ = portfolio_check(exprs[:-1] + axioms + [goal], min(self.timeout_ms, 12000), self.stats)
        return r

    def eq(self, a, b, label, learn=True):
        """a == b under the path condition.  A proven equality is remembered as a rewrite b -> a (valid on this path)
        and applied to later obligations, so that downstream values are compared modulo upstream ones."""
        if not isinstance(a, Sym) and not isinstance(b, Sym):
            # both concrete: float arithmetic of the real code vs the oracle's; compared numerically like a replay
            fa, fb = float(a), float(b)
            ok = fa == fb or abs(fa - fb) <= 1e-12 + 1e-9 * max(abs(fa), abs(fb))
            return self.require(ok, label, f"{fa!r} != {fb!r}")
        az, bz = to_z3(a), to_z3(b)
        if az is None or bz is None:
            raise EngineError(f"eq on non numeric {type(a)} {type(b)}")
        if az.eq(bz):
            self.stats["obligations"] += 1
            self.stats["syntactic"] += 1
            self.obligations.append(Obligation(label, "syntactic"))
            return True
        r = self._decide_obligation(label, az != bz)
        if r and learn:
            self._learn(az, bz)
        return r

    def eq_rel(self, a, b, label, rel=Fraction(1, 10 ** 12)):
        """a == b up to a relative 1e-12: for values that carry non-round float constants computed by the real code
        outside the proxies (data tables of the builder classes), whose binary64 rounding the real-number reading would
        otherwise take at face value.  Exact equality is tried first."""
        if not isinstance(a, Sym) and not isinstance(b, Sym):
            return self.eq(a, b, label)
        az, bz = to_z3(a), to_z3(b)
        if az.eq(bz) or poly_equal(az, bz):
            self.stats["obligations"] += 1
            self.stats["syntactic"] += 1
            self.obligations.append(Obligation(label, "syntactic"))
            return True
        tol = z3.RealVal(rel) * (z3.If(az >= 0, az, -az) + z3.If(bz >= 0, bz, -bz))
        return self._decide_obligation(label, z3.Or(az - bz > tol, bz - az > tol))

    def _learn(self, az, bz):
        def num(t):
            return z3.is_rational_value(t) or z3.is_int_value(t)
        pairs = [(az, bz)]
        if (z3.is_app(az) and z3.is_app(bz) and az.decl().kind() == z3.Z3_OP_MUL and bz.decl().kind() == z3.Z3_OP_MUL
                and az.num_args() == 2 and bz.num_args() == 2):
            for i, j in ((0, 1), (1, 0)):
                if num(az.arg(i)) and num(bz.arg(i)) and az.arg(i).eq(bz.arg(i)) and not frac_of(az.arg(i)) == 0:
                    pairs.append((az.arg(j), bz.arg(j)))
        for (x, y) in pairs:
            if num(y) or x.eq(y):
                continue
            if z3.is_const(y) and y.decl().kind() == z3.Z3_OP_UNINTERPRETED:
                continue  # never rewrite an input variable
            i = y.get_id()
            if i in self._rewrite_ids:
                continue
            if self.rewrites:
                x = z3.substitute(x, *self.rewrites)
            self._rewrite_ids.add(i)
            self.rewrites.append((y, x))

    def _apply_rewrites(self, e):
        if not self.rewrites:
            return e
        for _ in range(3):
            e2 = z3.substitute(e, *self.rewrites)
            if e2.eq(e):
                break
            e = e2
        return e

    def le(self, a, b, label):
        return self._decide_obligation(label, to_z3(a) > to_z3(b))

    def eq_ceil(self, value, x, label):
        """value == ceil(x) (exact over the reals)"""
        return self.eq(value, math.ceil(x) if isinstance(x, Sym) else math.ceil(x), label)

    def lt(self, a, b, label):
        return self._decide_obligation(label, to_z3(a) >= to_z3(b))

    def holds(self, cond, label):
        if isinstance(cond, SymBool):
            return self._decide_obligation(label, z3.Not(cond.e))
        if z3.is_expr(cond):
            return self._decide_obligation(label, z3.Not(cond))
        return self.require(bool(cond), label)

    def unreachable(self, cond, label):
        """cond must be unsatisfiable under the path condition (e.g. a divisor being zero)."""
        c = cond.e if isinstance(cond, SymBool) else cond
        return self._decide_obligation(label, c)

    def require(self, ok, label, detail=None, robust=False):
        """A concrete (non-arithmetic) obligation evaluated on this path; a failure is a candidate to replay.
        robust=True: the failure only counts if the path has a model strictly inside its branch conditions
        (otherwise it exists only on a branch boundary, where float rounding decides: outside every claim)."""
        self.stats["obligations"] += 1
        if ok:
            self.stats["concrete_ok"] += 1
            self.obligations.append(Obligation(label, "ok", None, 0.0, "concrete"))
            return True
        inputs = self.nice_model(None, margin_only=robust) if (robust or len(self.candidates) < self.max_candidates) else None
        if inputs is None and robust:
            self.stats["boundary_only"] = self.stats.get("boundary_only", 0) + 1
            self.obligations.append(Obligation(label, "boundary-only", detail, 0.0, "concrete"))
            return True
        self.stats["concrete_fail"] += 1
        if len(self.candidates) < self.max_candidates:
            inputs = inputs or self.model_inputs(self._ensure_model())
            self.candidates.append((label, inputs))
        self.obligations.append(Obligation(label, "fail", detail, 0.0, "concrete"))
        return False

    def observe(self, key, value):
        """Record a result for the fidelity replay (symbolic value evaluated at the path model vs concrete run)."""
        self.observed[key] = value

    def observe_float(self, key, value):
        """Like observe, but the fidelity replay compares the DAG evaluated in Python floats (same operation order)
        bit-for-bit with the real code's result: validates the order assumed by the Float64 lowering."""
        self.observed[key] = value
        self.observed_fp[key] = value

    def fp_unreachable(self, cond, label, box, timeout_ms=60000):
        """`cond` (over symbolic results) must be unsatisfiable when every operation of its DAG is a binary64
        operation and every free variable lies in `box`.  The path condition is NOT used: callers make sure the
        DAG is the same on every path through the kernel (DESIGN §3.5)."""
        from . import fp
        c = cond.e if isinstance(cond, SymBool) else cond
        names = sorted(free_vars(c))
        key = (str(c), str(box))
        self.stats["obligations"] += 1
        t0 = time.time()
        if key in _FP_CACHE:
            r, data = _FP_CACHE[key]
        else:
            self.stats["queries"] += 1
            r, data = fp.solve_fp(c, names, box, timeout_ms)
            _FP_CACHE[key] = (r, data)
            self.stats["solver_s"] += time.time() - t0
            self.stats["fp_queries"] = self.stats.get("fp_queries", 0) + 1
        dt = time.time() - t0
        if r == "unsat":
            self.stats["unsat"] += 1
            self.obligations.append(Obligation(label, "unsat", "Float64", dt, "solver-fp"))
            return True
        if r == "sat":
            self.stats["sat"] += 1
            inputs = self.nice_model(None) or {}
            inputs = dict(inputs)
            inputs.update(data)
            self.candidates.append((label, inputs))
            self.obligations.append(Obligation(label, "sat", f"Float64 model {data}"[:300], dt, "solver-fp"))
            return False
        self.stats["inconclusive"] += 1
        self.obligations.append(Obligation(label, "unknown", f"Float64: {data}"[:200], dt, "solver-fp"))
        return None

    # -- models --------------------------------------------------------------------------------------------------
    def model_inputs(self, m):
        out = {}
        for name, (c, spec) in self.vars.items():
            out[name] = frac_of(m.eval(c, model_completion=True))
        return out

    def _margin_lits(self, eps):
        """Path literals strengthened so that the model sits strictly inside the path (robust float replay)."""
        out = []
        for lit in self.lits:
            out.append(_strengthen(lit, eps))
        return out

    def nice_model(self, extra, want_margin=True, margin_only=False):
        """A model of PC (∧ extra) inside the variables' nice boxes and away from branch boundaries, if one exists."""
        s = z3.Solver()
        s.set("timeout", min(self.timeout_ms, 10000))
        for a in self.assumptions:
            s.add(a)
        nice = []
        for name, (c, spec) in self.vars.items():
            if spec.get("nice"):
                lo, hi = spec["nice"]
                nice.append(z3.And(c >= to_z3(lo), c <= to_z3(hi)))
        attempts = []
        ex = [] if extra is None else [extra]
        if want_margin:
            if extra is not None:
                # a witness that violates the obligation by a clear relative margin survives binary64 evaluation
                st = _strengthen_rel(extra, Fraction(1, 100))
                if st is not None:
                    ml3, ml6 = self._margin_lits(Fraction(1, 1000)), self._margin_lits(Fraction(1, 10 ** 6))
                    attempts += [[st] + ml3 + nice, [st] + ml3, [st] + ml6 + nice, [st] + ml6, [st] + list(self.lits)]
                    attempts.append([_strengthen_rel(extra, Fraction(1, 10 ** 5))] + ml6)
            for eps in (Fraction(1, 1000), Fraction(1, 10 ** 6), Fraction(1, 10 ** 9)):
                ml = self._margin_lits(eps)
                if eps == Fraction(1, 1000):
                    attempts.append(ex + ml + nice)
                attempts.append(ex + ml)
        if not margin_only:
            attempts.append(ex + list(self.lits) + nice)
        for att in attempts:
            self.stats["queries"] += 1
            t0 = time.time()
            s.push()
            s.add(*att)
            r = str(s.check())
            m = s.model() if r == "sat" else None
            s.pop()
            self.stats["solver_s"] += time.time() - t0
            if m is not None:
                return self.model_inputs(m)
        return None

    def lits_hold_at(self, inputs):
        subs = [(c, (z3.IntVal(int(inputs[n])) if spec["integer"] else z3.RealVal(inputs[n])))
                for n, (c, spec) in self.vars.items() if n in inputs]
        for lit in self.lits:
            r = z3.simplify(z3.substitute(lit, *subs))
            if not z3.is_true(r):
                return False
        return True

    def eval_at(self, inputs, value):
        """Evaluate a symbolic value at concrete inputs (exact rational arithmetic through z3 substitution)."""
        z = to_z3(value)
        subs = [(c, (z3.IntVal(int(inputs[n])) if spec["integer"] else z3.RealVal(inputs[n])))
                for n, (c, spec) in self.vars.items() if n in inputs]
        r = z3.simplify(z3.substitute(z, *subs))
        try:
            return frac_of(r)
        except EngineError:
            return None


def _strengthen(lit, eps):
    """a<=b -> a+eps<=b etc. for arithmetic comparison literals; other literals unchanged."""
    neg = False
    t = lit
    if z3.is_not(t):
        neg = True
        t = t.arg(0)
    k = t.decl().kind() if z3.is_app(t) else None
    if k in (z3.Z3_OP_LE, z3.Z3_OP_LT, z3.Z3_OP_GE, z3.Z3_OP_GT) and t.arg(0).sort().kind() in (z3.Z3_REAL_SORT,):
        a, b = t.arg(0), t.arg(1)
        e = z3.RealVal(eps)
        if k in (z3.Z3_OP_LE, z3.Z3_OP_LT):
            return (a >= b + e) if neg else (a + e <= b)
        return (a + e <= b) if neg else (a >= b + e)
    if k == z3.Z3_OP_EQ and neg and t.arg(0).sort().kind() == z3.Z3_REAL_SORT:
        a, b = t.arg(0), t.arg(1)
        e = z3.RealVal(eps)
        return z3.Or(a >= b + e, a + e <= b)
    return lit


def _strengthen_rel(lit, eps):
    """violation literal with a relative margin: a<b -> a + eps*max(|a|,|b|)... <= b ; None if the literal has another shape"""
    neg = False
    t = lit
    if z3.is_not(t):
        neg = True
        t = t.arg(0)
    if not z3.is_app(t) or t.num_args() != 2 or t.arg(0).sort().kind() != z3.Z3_REAL_SORT:
        return None
    k = t.decl().kind()
    a, b = t.arg(0), t.arg(1)
    e = z3.RealVal(eps)
    gap = e * (z3.If(a >= 0, a, -a) + z3.If(b >= 0, b, -b)) + z3.RealVal(Fraction(1, 10 ** 9))
    if k in (z3.Z3_OP_LE, z3.Z3_OP_LT):
        return (a >= b + gap) if neg else (a + gap <= b)
    if k in (z3.Z3_OP_GE, z3.Z3_OP_GT):
        return (a + gap <= b) if neg else (a >= b + gap)
    if (k == z3.Z3_OP_EQ and neg) or (k == z3.Z3_OP_DISTINCT and not neg):
        return z3.Or(a >= b + gap, a + gap <= b)
    return None


class ConcCtx(BaseCtx):
    """Concrete run of the same harness on plain floats against the untouched code (no stubs installed)."""
    symbolic = False

    def __init__(self, inputs, rtol=1e-9, atol=0.0, sample=None):
        super().__init__()
        self.inputs = inputs
        self.rtol, self.atol = rtol, atol
        self.failures = []
        self.stats = {}
        self.missing = []
        # sample=k: inputs without a value are drawn from their declared box (fallback runs of the runner, used only for
        # harness instances the symbolic engine could not execute faithfully); the values drawn are kept in self.inputs
        self.sample = sample
        self._rnd = random.Random(1000 + sample) if sample is not None else None

    def _draw(self, lo, hi, lo_strict, hi_strict, integer, nice):
        a, b = (nice if nice else (lo if lo is not None else 0, hi if hi is not None else 1000))
        a, b = Fraction(a), Fraction(b)
        k = self.sample
        if integer:
            a, b = math.ceil(a), math.floor(b)
            v = (a + b) // 2 if k == 0 else a if k == 1 else b if k == 2 else self._rnd.randint(a, b)
            return Fraction(v)
        if k == 0:
            v = (a + b) / 2
        elif k == 1:
            v = a + (b - a) / 64
        elif k == 2:
            v = b - (b - a) / 64
        else:
            v = a + (b - a) * Fraction(self._rnd.randint(1, 1023), 1024)
        if lo is not None and (v < lo or (lo_strict and v == lo)):
            v = Fraction(lo) + (b - a) / 1024
        if hi is not None and (v > hi or (hi_strict and v == hi)):
            v = Fraction(hi) - (b - a) / 1024
        return v

    def var(self, name, lo=None, hi=None, lo_strict=False, hi_strict=False, integer=False, nice=None):
        if name not in self.inputs:
            if self.sample is None:
                self.missing.append(name)
                raise PathAbort(f"no value for {name}")
            self.inputs[name] = self._draw(lo, hi, lo_strict, hi_strict, integer, nice)
        v = self.inputs[name]
        return int(v) if integer else float(v)

    def const(self, value):
        return value

    def assume(self, cond):
        if not cond:
            raise PathAbort("precondition false in concrete run")

    def _close(self, a, b):
        a, b = float(a), float(b)
        if a == b:
            return True
        if math.isnan(a) or math.isnan(b) or math.isinf(a) or math.isinf(b):
            return False
        return abs(a - b) <= self.atol + self.rtol * max(abs(a), abs(b))

    def eq(self, a, b, label):
        ok = self._close(a, b)
        self.obligations.append((label, ok))
        if not ok:
            self.failures.append((label, f"{float(a)!r} != {float(b)!r}"))
        return ok

    def eq_rel(self, a, b, label, rel=None):
        return self.eq(a, b, label)

    def le(self, a, b, label):
        a, b = float(a), float(b)
        ok = a <= b or self._close(a, b)
        self.obligations.append((label, ok))
        if not ok:
            self.failures.append((label, f"{a!r} > {b!r}"))
        return ok

    def eq_ceil(self, value, x, label):
        """value == ceil(x); when x is within 1e-9 (relative) of an integer, float rounding decides: both accepted"""
        x = float(x)
        cands = {math.ceil(x), math.ceil(x * (1 - 1e-9)), math.ceil(x * (1 + 1e-9))} if math.isfinite(x) else {x}
        ok = any(self._close(value, c) for c in cands)
        self.obligations.append((label, ok))
        if not ok:
            self.failures.append((label, f"{float(value)!r} != ceil({x!r})"))
        return ok

    def lt(self, a, b, label):
        a, b = float(a), float(b)
        ok = a < b
        self.obligations.append((label, ok))
        if not ok:
            self.failures.append((label, f"{a!r} >= {b!r}"))
        return ok

    def holds(self, cond, label):
        return self.require(bool(cond), label)

    def unreachable(self, cond, label):
        return self.require(not bool(cond), label)

    def require(self, ok, label, detail=None, robust=False):
        self.obligations.append((label, bool(ok)))
        if not ok:
            self.failures.append((label, detail or "concrete obligation failed"))
        return bool(ok)

    def observe(self, key, value):
        try:
            self.observed[key] = float(value)
        except Exception:
            self.observed[key] = None

    def note_divisor(self, dz):
        pass

    def choose(self, k, what="choice"):
        return 0

    def observe_float(self, key, value):
        self.observe(key, value)

    def fp_unreachable(self, cond, label, box, timeout_ms=60000):
        return True


# ----------------------------------------------------------------------------------------------------------------
# exploration
# ----------------------------------------------------------------------------------------------------------------
def new_stats():
    return dict(queries=0, solver_s=0.0, decisions=0, obligations=0, syntactic=0, unsat=0, sat=0, inconclusive=0,
                concrete_ok=0, concrete_fail=0, unknown_pc=0, unknown_branch=0, paths=0, aborted=0)


class PathResult:
    def __init__(self):
        self.trace = None
        self.outcome = None
        self.obligations = []
        self.candidates = []
        self.fidelity = None  # (inputs, {key: Fraction})
        self.notes = []
        self.counters = {}
        self.n_lits = 0


def _perturbations(ctx, inputs):
    """the witness moved by a few 1e-9 (relative), every input by its own amount and sign (a uniform factor would cancel in
    every ratio): uniformly up, uniformly down, and two mixed patterns"""
    names = [n for n in inputs if n in ctx.vars]
    out = []
    for j in range(4):
        d = {}
        for i, n in enumerate(names):
            if ctx.vars[n][1]["integer"]:
                d[n] = inputs[n]
                continue
            if j < 2:
                f = 1 if j == 0 else -1
            else:
                f = (1 if (i + j) % 2 == 0 else -1) * (1 + (i * 7 + j * 3) % 5)
            d[n] = inputs[n] * (1 + f * Fraction(1, 10 ** 9))
        out.append(d)
    return out


def explore(harness, params, max_paths=256, max_seconds=600.0, solver_timeout_ms=20000, seed=0, fidelity=True,
            on_path_end=None):
    """Depth-first exploration of all feasible decision sequences of harness(ctx, **params)."""
    stats = new_stats()
    work = [[]]
    results = []
    t_start = time.time()
    exhaustive = True
    while work:
        if len(results) >= max_paths or time.time() - t_start > max_seconds:
            exhaustive = False
            break
        prefix = work.pop()
        ctx = SymCtx(prefix, stats, solver_timeout_ms, seed)
        set_ctx(ctx)
        OPS[0] = 0
        pr = PathResult()
        try:
            try:
                ret = harness(ctx, **params)
                pr.outcome = "ok"
            except PathAbort as e:
                stats["aborted"] += 1
                work.extend(ctx.siblings)
                continue
            except RecursionError:
                raise
            except Exception as e:  # noqa - an exception escaping the harness is a path outcome
                site = _where(e.__traceback__)
                if site == "harness" and not isinstance(e, (ValueError, PermissionError)):
                    raise EngineError(f"harness bug: {type(e).__name__}: {e}\n" + "".join(
                        traceback.format_tb(e.__traceback__)[-3:]))
                pr.outcome = f"raised:{type(e).__name__}@{site}"
                pr.notes.append(str(e)[:200])
            if len(ctx.trace) < len(ctx.prefix):
                raise EngineError(f"replay divergence: prefix {len(ctx.prefix)} but only {len(ctx.trace)} decisions")
            stats["paths"] += 1
            pr.trace = list(ctx.trace)
            pr.n_lits = len(ctx.lits)
            pr.obligations = [(o.label, o.status, o.kind, round(o.time, 4), o.detail) for o in ctx.obligations]
            pr.candidates = list(ctx.candidates)
            pr.notes += ctx.notes
            pr.counters = dict(ctx.counters)
            pr.ops = OPS[0]
            pr.vars = {n: spec for n, (c, spec) in ctx.vars.items()}
            if fidelity:
                try:
                    # fidelity witnesses must lie strictly inside the path (a boundary witness is decided by float rounding)
                    inputs = ctx.nice_model(None, margin_only=True)
                    if inputs is not None:
                        # the witness must stay on this path when every input moves by 1e-9 (relative) either way:
                        # otherwise float rounding, not the model, decides which branch the concrete run takes
                        for pert0 in _perturbations(ctx, inputs):
                            if not ctx.lits_hold_at(pert0):
                                inputs = None
                                break
                    if inputs is None:
                        stats["fidelity_skipped_no_interior_witness"] = stats.get("fidelity_skipped_no_interior_witness", 0) + 1
                    if inputs is not None:
                        obs = {}
                        for k, v in ctx.observed.items():
                            if isinstance(v, Sym):
                                obs[k] = ctx.eval_at(inputs, v)
                            elif isinstance(v, (int, float, Fraction)):
                                obs[k] = Fraction(v) if not isinstance(v, float) else float_to_fraction(v)
                            else:
                                obs[k] = v
                        # conditioning: re-evaluate at inputs perturbed by 1e-9 (relative); results that move by more
                        # than 1e-5 are ill-conditioned at this witness (cancellation) and are not compared
                        for pert in _perturbations(ctx, inputs):
                            for k, v in list(ctx.observed.items()):
                                if isinstance(v, Sym) and obs.get(k) is not None:
                                    v2 = ctx.eval_at(pert, v)
                                    if v2 is None or abs(v2 - obs[k]) > Fraction(1, 10 ** 5) * max(abs(obs[k]), abs(v2)):
                                        obs[k] = None
                                        stats["fidelity_cells_ill_conditioned"] = stats.get("fidelity_cells_ill_conditioned", 0) + 1
                        fobs = {}
                        if ctx.observed_fp:
                            from . import fp as _fp
                            for k, v in ctx.observed_fp.items():
                                if isinstance(v, Sym):
                                    try:
                                        fobs[k] = _fp.eval_float(v.e, {n: float(x) for n, x in inputs.items()})
                                    except Exception as e:  # noqa
                                        fobs[k] = f"error: {e}"
                        pr.fidelity = (inputs, obs, fobs)
                except PathAbort:
                    pass
            if on_path_end is not None:
                on_path_end(ctx, pr)
            results.append(pr)
            work.extend(ctx.siblings)
        finally:
            set_ctx(None)
    return dict(paths=results, stats=stats, exhaustive=exhaustive and not work, wall_s=time.time() - t_start,
                pending=len(work))


def run_concrete(harness, params, inputs, rtol=1e-9, atol=0.0, sample=None):
    inputs = dict(inputs)
    ctx = ConcCtx(inputs, rtol, atol, sample=sample)
    set_ctx(ctx)
    try:
        try:
            harness(ctx, **params)
            outcome = "ok"
        except PathAbort as e:
            outcome = f"abort:{e}"
        except Exception as e:  # noqa
            outcome = f"raised:{type(e).__name__}@{_where(e.__traceback__)}"
            ctx.notes.append(str(e)[:300])
    finally:
        set_ctx(None)
    return dict(outcome=outcome, failures=ctx.failures, observed=ctx.observed, n_obligations=len(ctx.obligations),
                notes=ctx.notes, inputs_used=dict(ctx.inputs))


# ----------------------------------------------------------------------------------------------------------------
# mode-independent helpers for oracles
# ----------------------------------------------------------------------------------------------------------------
def ite(cond, a, b):
    """If-then-else usable in oracles in both modes."""
    if isinstance(cond, SymBool):
        return Sym(z3.If(cond.e, to_z3(a), to_z3(b)))
    return a if cond else b


def floor_(x):
    """floor that stays lazy on proxies (no concretisation)."""
    return math.floor(x)


def ceil_(x):
    return math.ceil(x)


def sym_eq(a, b):
    """a == b as SymBool/bool without triggering a decision."""
    if isinstance(a, Sym) or isinstance(b, Sym):
        return SymBool(to_z3(a) == to_z3(b))
    return a == b


def and_(*cs):
    if any(isinstance(c, SymBool) for c in cs):
        return SymBool(z3.And(*[c.e if isinstance(c, SymBool) else z3.BoolVal(bool(c)) for c in cs]))
    return all(cs)


def or_(*cs):
    if any(isinstance(c, SymBool) for c in cs):
        return SymBool(z3.Or(*[c.e if isinstance(c, SymBool) else z3.BoolVal(bool(c)) for c in cs]))
    return any(cs)
