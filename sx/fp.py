"""Float64 reinterpretation of the expression DAG produced by running the real code on proxies (DESIGN §3.5).

The z3 Real terms built by `Sym` keep the operation order of the real code (no simplification is applied while
they are built).  `to_fp` lowers such a term to z3 FloatingPoint (binary64, round-nearest-even) operation by
operation; `eval_float` evaluates the same term in Python floats, and is compared bit-for-bit with the concrete run
of the real code to validate that the DAG order is the order numpy/pandas use."""
from fractions import Fraction

import z3

from .core import frac_of, EngineError

F64 = z3.Float64()
RNE = z3.RNE()


class NotLowerable(Exception):
    pass


def _const_fp(t):
    fr = frac_of(t)
    f = float(fr)
    if Fraction(f) != fr:
        raise NotLowerable(f"constant {fr} is not a binary64 number")
    return z3.FPVal(f, F64), f


def to_fp(term, fpvars, cache=None):
    """fpvars: name -> z3 FP const.  Returns an FP term (or Bool for comparisons)."""
    cache = {} if cache is None else cache

    def go(t):
        i = t.get_id()
        if i in cache:
            return cache[i]
        r = _go(t)
        cache[i] = r
        return r

    def fold(args, op):
        acc = go(args[0])
        for a in args[1:]:
            acc = op(acc, go(a))
        return acc

    def _go(t):
        if z3.is_rational_value(t) or z3.is_int_value(t):
            return _const_fp(t)[0]
        if z3.is_const(t) and t.decl().kind() == z3.Z3_OP_UNINTERPRETED:
            n = str(t)
            if n not in fpvars:
                raise NotLowerable(f"free variable {n} has no float counterpart")
            return fpvars[n]
        k = t.decl().kind()
        ch = t.children()
        if k == z3.Z3_OP_ADD:
            return fold(ch, lambda a, b: z3.fpAdd(RNE, a, b))
        if k == z3.Z3_OP_SUB:
            return fold(ch, lambda a, b: z3.fpSub(RNE, a, b))
        if k == z3.Z3_OP_MUL:
            return fold(ch, lambda a, b: z3.fpMul(RNE, a, b))
        if k == z3.Z3_OP_DIV:
            return z3.fpDiv(RNE, go(ch[0]), go(ch[1]))
        if k == z3.Z3_OP_UMINUS:
            return z3.fpNeg(go(ch[0]))
        if k == z3.Z3_OP_ITE:
            return z3.If(go(ch[0]), go(ch[1]), go(ch[2]))
        if k == z3.Z3_OP_LE:
            return z3.fpLEQ(go(ch[0]), go(ch[1]))
        if k == z3.Z3_OP_LT:
            return z3.fpLT(go(ch[0]), go(ch[1]))
        if k == z3.Z3_OP_GE:
            return z3.fpGEQ(go(ch[0]), go(ch[1]))
        if k == z3.Z3_OP_GT:
            return z3.fpGT(go(ch[0]), go(ch[1]))
        if k == z3.Z3_OP_EQ:
            return z3.fpEQ(go(ch[0]), go(ch[1]))
        if k == z3.Z3_OP_NOT:
            return z3.Not(go(ch[0]))
        if k == z3.Z3_OP_AND:
            return z3.And(*[go(c) for c in ch])
        if k == z3.Z3_OP_OR:
            return z3.Or(*[go(c) for c in ch])
        raise NotLowerable(f"operator {t.decl().name()} is outside the float lowering")
    return go(term)


def eval_float(term, values, cache=None):
    """Evaluate the DAG in Python floats, same operation order."""
    cache = {} if cache is None else cache

    def go(t):
        i = t.get_id()
        if i in cache:
            return cache[i]
        r = _go(t)
        cache[i] = r
        return r

    def _go(t):
        if z3.is_rational_value(t) or z3.is_int_value(t):
            return float(frac_of(t))
        if z3.is_const(t) and t.decl().kind() == z3.Z3_OP_UNINTERPRETED:
            return float(values[str(t)])
        k = t.decl().kind()
        ch = [go(c) for c in t.children()]
        if k == z3.Z3_OP_ADD:
            acc = ch[0]
            for c in ch[1:]:
                acc = acc + c
            return acc
        if k == z3.Z3_OP_SUB:
            acc = ch[0]
            for c in ch[1:]:
                acc = acc - c
            return acc
        if k == z3.Z3_OP_MUL:
            acc = ch[0]
            for c in ch[1:]:
                acc = acc * c
            return acc
        if k == z3.Z3_OP_DIV:
            return ch[0] / ch[1]
        if k == z3.Z3_OP_UMINUS:
            return -ch[0]
        if k == z3.Z3_OP_ITE:
            return ch[1] if ch[0] else ch[2]
        if k == z3.Z3_OP_LE:
            return ch[0] <= ch[1]
        if k == z3.Z3_OP_LT:
            return ch[0] < ch[1]
        if k == z3.Z3_OP_GE:
            return ch[0] >= ch[1]
        if k == z3.Z3_OP_GT:
            return ch[0] > ch[1]
        if k == z3.Z3_OP_EQ:
            return ch[0] == ch[1]
        if k == z3.Z3_OP_NOT:
            return not ch[0]
        if k == z3.Z3_OP_AND:
            return all(ch)
        if k == z3.Z3_OP_OR:
            return any(ch)
        raise NotLowerable(f"operator {t.decl().name()}")
    return go(term)


def fp_value_to_fraction(v):
    """exact rational of an FP numeral from a model"""
    if z3.is_fp(v) or True:
        s = v.isNaN() if hasattr(v, "isNaN") else False
        if s:
            raise EngineError("NaN in float model")
        sign = -1 if v.isNegative() else 1
        if v.isZero():
            return Fraction(0)
        if v.isInf():
            raise EngineError("inf in float model")
        # significand / exponent as exact rational
        sig = Fraction(v.significand_as_long(), 2 ** (v.sbits() - 1))
        exp = v.exponent_as_long(biased=False)
        if v.isSubnormal():
            exp = 1 - (2 ** (v.ebits() - 1) - 1)
            sig = sig  # significand_as_long has no hidden bit for subnormals
        else:
            sig = 1 + sig
        return sign * sig * (Fraction(2) ** exp)


def solve_fp(cond_real, var_names, box, timeout_ms=60000):
    """Is `cond_real` (a Bool over real terms) satisfiable when every operation is a binary64 operation and every
    variable lies in `box` = list of (lo, hi) closed float intervals (a variable may take any of them)?
    -> ("sat", {name: Fraction}) | ("unsat", None) | ("unknown", reason)"""
    fpvars = {n: z3.FP(f"fp_{n}", F64) for n in var_names}
    try:
        c = to_fp(cond_real, fpvars)
    except NotLowerable as e:
        return "unknown", str(e)
    s = z3.Solver()
    s.set("timeout", int(timeout_ms))
    for n, v in fpvars.items():
        alts = []
        for lo, hi in box:
            if lo == hi:
                alts.append(z3.fpEQ(v, z3.FPVal(lo, F64)))
            else:
                alts.append(z3.And(z3.fpGEQ(v, z3.FPVal(lo, F64)), z3.fpLEQ(v, z3.FPVal(hi, F64))))
        s.add(z3.Or(*alts))
    s.add(c)
    r = str(s.check())
    if r == "sat":
        m = s.model()
        out = {}
        for n, v in fpvars.items():
            mv = m.eval(v, model_completion=True)
            out[n] = fp_value_to_fraction(mv)
        return "sat", out
    if r == "unsat":
        return "unsat", None
    return "unknown", s.reason_unknown()
