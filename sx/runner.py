"""sx.runner — runs the harnesses of one property over a process pool, replays counterexamples concretely,
matches known findings, writes the evidence file and prints the verdict lines."""
import fnmatch
import hashlib
import importlib
import json
import multiprocessing as mp
import os
import sys
import time
import traceback
from fractions import Fraction

VERIF = os.path.dirname(os.path.dirname(os.path.abspath(__file__)))
REPO = os.environ.get("VERIF_REPO", "/repo")
EXIT_OK, EXIT_VIOLATION, EXIT_ERROR = 0, 1, 2


def _load(modname):
    return importlib.import_module(f"harness.{modname}")


def _frac_json(d):
    return {k: (f"{v.numerator}/{v.denominator}" if isinstance(v, Fraction) else v) for k, v in d.items()}


def _frac_load(d):
    return {k: (Fraction(v) if isinstance(v, str) else v) for k, v in d.items()}


# ----------------------------------------------------------------------------------------------------------------
# worker side
# ----------------------------------------------------------------------------------------------------------------
_PROFILE = {}


def _sym_task(task):
    from sx import core, stubs
    t0 = time.time()
    try:
        mod = _load(task["module"])
        fn = mod.HARNESSES[task["harness"]]
        stubs.install(merge=task.get("merge", True))
        funcs = set()

        def wrapped(ctx, **params):
            stubs.reset_uuid()
            if not funcs and task.get("profile", True):
                def prof(frame, event, arg):
                    if event == "call":
                        fnm = frame.f_code.co_filename
                        if "/efootprint/" in fnm:
                            funcs.add(f"{fnm.split('/efootprint/', 1)[1]}:{frame.f_code.co_name}")
                funcs.add("_")
                sys.setprofile(prof)
                try:
                    return fn(ctx, **params)
                finally:
                    sys.setprofile(None)
            return fn(ctx, **params)

        res = core.explore(wrapped, task["params"], max_paths=task["max_paths"], max_seconds=task["max_seconds"],
                           solver_timeout_ms=task["solver_timeout_ms"], seed=task.get("seed", 0))
        funcs.discard("_")
        res["functions"] = sorted(funcs)
        res["task"] = task
        res["error"] = None
        res["task_wall_s"] = time.time() - t0
        return res
    except BaseException as e:  # engine error: report, never turn into a verdict
        return dict(task=task, error="".join(traceback.format_exception(type(e), e, e.__traceback__))[-3000:],
                    paths=[], stats=core.new_stats(), exhaustive=False, wall_s=time.time() - t0, functions=[],
                    pending=0, task_wall_s=time.time() - t0)


def _conc_task(job):
    from sx import core, stubs
    try:
        stubs.uninstall()
        stubs.quiet()
        mod = _load(job["module"])
        fn = mod.HARNESSES[job["harness"]]
        # environment determinism only (like PYTHONHASHSEED): the replay gets the same object identifiers as the symbolic
        # run, so that set-iteration-order dependent behaviour of the real code (known finding R1) reproduces
        stubs.deterministic_ids()
        res = core.run_concrete(fn, job["params"], job["inputs"], rtol=job.get("rtol", 1e-9),
                                atol=job.get("atol", 0.0), sample=job.get("sample"))
        res["job"] = job
        res["error"] = None
        return res
    except BaseException as e:
        return dict(job=job, error="".join(traceback.format_exception(type(e), e, e.__traceback__))[-3000:],
                    outcome="error", failures=[], observed={}, n_obligations=0, notes=[])


def _dispatch(item):
    kind, payload = item
    return (kind, _sym_task(payload) if kind == "sym" else _conc_task(payload))


def _preimport():
    """import the code under analysis once in the parent so that forked workers do not pay for it per task"""
    try:
        import logging
        logging.disable(logging.CRITICAL)
        import harness.model  # noqa: F401
        import harness.values  # noqa: F401
        import z3  # noqa: F401
    except Exception:
        pass


def _child_main(conn, item):
    try:
        conn.send(_dispatch(item))
    except BaseException as e:  # unpicklable result, broken pipe, ...
        try:
            conn.send(_lost(item, "worker could not return its result: " + repr(e)[:500]))
        except BaseException:
            pass
    finally:
        try:
            conn.close()
        finally:
            os._exit(0)


def _lost(item, why):
    from sx import core
    kind, payload = item
    if kind == "sym":
        return (kind, dict(task=payload, error=why, paths=[], stats=core.new_stats(), exhaustive=False, wall_s=0.0,
                           functions=[], pending=0, task_wall_s=0.0))
    return (kind, dict(job=payload, error=why, outcome="error", failures=[], observed={}, n_obligations=0, notes=[]))


def _hard_limit(item):
    kind, payload = item
    return 3 * payload.get("max_seconds", 300) + 900 if kind == "sym" else 1800


def run_parallel(items, nproc):
    """one forked process per task; a worker that dies (solver crash, kill, out of memory) or exceeds the hard wall-clock
    limit yields an *engine error* for its task instead of hanging the check"""
    from multiprocessing.connection import wait
    ctxmp = mp.get_context("fork")
    pending = list(items)[::-1]
    running = {}
    while pending or running:
        while pending and len(running) < nproc:
            item = pending.pop()
            pc, cc = ctxmp.Pipe(duplex=False)
            p = ctxmp.Process(target=_child_main, args=(cc, item))
            p.start()
            cc.close()
            running[pc] = (p, item, time.time())
        for c in wait(list(running), timeout=5):
            p, item, t0 = running.pop(c)
            try:
                out = c.recv()
            except (EOFError, OSError):
                p.join(5)
                out = _lost(item, f"worker process died without a result (exit code {p.exitcode})")
            c.close()
            p.join(10)
            if p.is_alive():
                p.kill()
            yield out
        now = time.time()
        for c, (p, item, t0) in list(running.items()):
            if now - t0 > _hard_limit(item):
                running.pop(c)
                p.kill()
                p.join(5)
                c.close()
                yield _lost(item, f"hard wall-clock limit of {_hard_limit(item)} s exceeded")



# ----------------------------------------------------------------------------------------------------------------
# parent side
# ----------------------------------------------------------------------------------------------------------------
def load_known():
    p = os.path.join(VERIF, "known_findings.json")
    if not os.path.exists(p):
        return []
    return json.load(open(p)).get("findings", [])


def match_known(known, prop, harness, label, params=None):
    """A known finding is identified by property + harness + the parameters of the failing instance (every string of
    `params_contain` must occur in the JSON of the parameters) + a glob on the failing obligation's label."""
    pj = json.dumps(params, sort_keys=True, default=str) if params is not None else ""
    for k in known:
        globs = k.get("labels") or [k.get("label", "*")]
        if k["property"] == prop and fnmatch.fnmatch(harness, k.get("harness", "*")) \
                and any(fnmatch.fnmatch(label, g) for g in globs) \
                and all(sub in pj for sub in k.get("params_contain", [])):
            return k
    return None


def write_replay(prop, module, harness, params, inputs, label, detail):
    os.makedirs(os.path.join(VERIF, "replays"), exist_ok=True)
    body = dict(property=prop, module=module, harness=harness, params=params, inputs=_frac_json(inputs), label=label,
                detail=detail)
    h = hashlib.sha1(json.dumps(body, sort_keys=True, default=str).encode()).hexdigest()[:10]
    path = os.path.join(VERIF, "replays", f"{prop}_{h}.json")
    with open(path, "w") as f:
        json.dump(body, f, indent=1, default=str)
    return path


def replay_file(path):
    body = json.load(open(path))
    sys.path.insert(0, VERIF)
    sys.path.insert(0, REPO)
    res = _conc_task(dict(module=body["module"], harness=body["harness"], params=body["params"],
                          inputs=_frac_load(body["inputs"])))
    print(json.dumps(dict(outcome=res["outcome"], failures=res["failures"][:10], error=res["error"],
                          notes=res.get("notes", [])[:3]), indent=1, default=str))
    if res["error"]:
        return EXIT_ERROR
    if res["failures"]:
        print(f"VIOLATION property={body['property']} replay={path}")
        return EXIT_VIOLATION
    print("replay: no obligation fails on this tree")
    return EXIT_OK


def _close(a, b, rtol=1e-6, atol=1e-9):
    if a is None or b is None:
        return a is None and b is None
    a, b = float(a), float(b)
    return abs(a - b) <= atol + rtol * max(abs(a), abs(b))


def run_property(modname, tier, seed, jobs=None):
    t_start = time.time()
    sys.path.insert(0, VERIF)
    sys.path.insert(0, REPO)
    mod = _load(modname)
    prop = mod.PROPERTY
    plan = mod.plan(tier, seed)
    defaults = dict(max_paths=256 if tier == "quick" else 4096, max_seconds=240 if tier == "quick" else 1500,
                    solver_timeout_ms=20000 if tier == "quick" else 120000)
    tasks = []
    for item in plan:
        name, params = item[0], item[1]
        opts = item[2] if len(item) > 2 else {}
        t = dict(module=modname, harness=name, params=params, seed=seed, **{**defaults, **opts})
        tasks.append(t)
    nproc = jobs or int(os.environ.get("VERIF_JOBS", "0")) or min(16, os.cpu_count() or 4)
    known = load_known()
    sym_results = []
    _preimport()
    if True:
        # longest first for better packing
        order = sorted(tasks, key=lambda t: -t.get("weight", 1))
        for kind, res in run_parallel([("sym", t) for t in order], nproc):
            sym_results.append(res)
            if os.environ.get("VERIF_DEBUG"):
                st = res["stats"]
                print(f"  .. {res['task']['harness']} {json.dumps(res['task']['params'], default=str)[:90]} paths={len(res['paths'])} "
                      f"q={st['queries']} solver={st['solver_s']:.1f}s wall={res['wall_s']:.1f}s exh={res['exhaustive']} "
                      f"inc={st['inconclusive']} sat={st['sat']} err={'Y' if res['error'] else '-'}", flush=True)
        # ---- concrete jobs: candidate replays + fidelity replays
        conc_jobs = []
        fid_budget = getattr(mod, "FIDELITY_PER_HARNESS", 3 if tier == "quick" else 8)
        seen_cand = {}
        for res in sym_results:
            t = res["task"]
            nf = 0
            for pr in res["paths"]:
                for (label, inputs) in pr.candidates:
                    key = (t["harness"], json.dumps(t["params"], sort_keys=True, default=str), label)
                    if seen_cand.get(key, 0) >= 2:
                        continue
                    seen_cand[key] = seen_cand.get(key, 0) + 1
                    conc_jobs.append(dict(kind="candidate", module=modname, harness=t["harness"], params=t["params"],
                                          inputs=inputs, label=label, path_outcome=pr.outcome))
                if pr.fidelity is not None and nf < fid_budget:
                    nf += 1
                    conc_jobs.append(dict(kind="fidelity", module=modname, harness=t["harness"], params=t["params"],
                                          inputs=pr.fidelity[0], expected=pr.fidelity[1], path_outcome=pr.outcome,
                                          expected_float=pr.fidelity[2] if len(pr.fidelity) > 2 else {}))
        conc_results = [r for _, r in run_parallel([("conc", j) for j in conc_jobs], nproc)]

    # ---- aggregate
    errors = [r["error"] for r in sym_results if r["error"]]
    agg = {}
    for r in sym_results:
        for k, v in r["stats"].items():
            agg[k] = agg.get(k, 0) + v
    n_paths = sum(len(r["paths"]) for r in sym_results)
    functions = sorted(set(f for r in sym_results for f in r["functions"]))
    outcomes = {}
    inconclusive = []
    merged_counters = {}
    for r in sym_results:
        for pr in r["paths"]:
            outcomes[pr.outcome] = outcomes.get(pr.outcome, 0) + 1
            for (label, status, kind, tt, detail) in pr.obligations:
                if status == "unknown":
                    inconclusive.append(f"{r['task']['harness']}:{label}")
            for k, v in pr.counters.items():
                merged_counters[k] = merged_counters.get(k, 0) + v

    violations, known_hits, unconfirmed, fid_ok, fid_bad, fid_boundary = [], {}, [], 0, [], 0
    fid_float_checked = 0
    cand_groups = {}
    for cr in conc_results:
        j = cr["job"]
        if cr["error"]:
            errors.append(cr["error"])
            continue
        if j["kind"] == "candidate":
            key = (j["harness"], json.dumps(j["params"], sort_keys=True, default=str), j["label"])
            g = cand_groups.setdefault(key, dict(job=j, confirmed=None, tries=0))
            g["tries"] += 1
            if cr["failures"] and g["confirmed"] is None:
                g["confirmed"] = cr
        else:
            exp_outcome = j["path_outcome"]
            # same verdict = both ok, or both raise the same exception type (the raise *site* may differ when several
            # checks would fire and set-iteration order decides which object is computed first)
            same = cr["outcome"].split("@")[0] == exp_outcome.split("@")[0]
            bad = []
            if same:
                for k, ev in j["expected"].items():
                    if ev is not None and k in cr["observed"] and not _close(ev, cr["observed"][k]):
                        bad.append((k, str(ev), cr["observed"][k]))
                for k, fv in (j.get("expected_float") or {}).items():
                    if k in cr["observed"]:
                        fid_float_checked += 1
                        if not (isinstance(fv, float) and cr["observed"][k] == fv):
                            bad.append((k, f"float-order {fv!r}", cr["observed"][k]))
            if same and not bad:
                fid_ok += 1
            else:
                fid_bad.append(dict(harness=j["harness"], params=j["params"], inputs=_frac_json(j["inputs"]),
                                    expected_outcome=exp_outcome, outcome=cr["outcome"], diffs=bad[:5],
                                    notes=cr.get("notes", [])[:2]))
    # ---- fallback for harness instances the engine could not execute faithfully on this tree (engine error, symbolic and
    # concrete outcome differ, solver model not reproduced, no obligation reached): the same harness is run on the real
    # code at concrete inputs drawn from the variables' boxes.  A failing obligation there is a violation shown on the
    # real code (reported like a confirmed counterexample); finding none leaves the engine error standing (exit 2).
    gaps = {}
    for r in sym_results:
        n_ob = sum(len(pr.obligations) for pr in r["paths"])
        if r["error"] or (n_ob == 0 and not r["task"].get("allow_no_obligation")):
            gaps[(r["task"]["harness"], json.dumps(r["task"]["params"], sort_keys=True, default=str))] = r["task"]
    by_key = {(r["task"]["harness"], json.dumps(r["task"]["params"], sort_keys=True, default=str)): r["task"] for r in sym_results}
    for fb in fid_bad:
        k = (fb["harness"], json.dumps(fb["params"], sort_keys=True, default=str))
        gaps[k] = by_key[k]
    for key, g in cand_groups.items():
        if g["confirmed"] is None and not getattr(mod, "UNCONFIRMED_OK", False):
            gaps[(key[0], key[1])] = by_key[(key[0], key[1])]
    n_fallback = 0
    if gaps:
        per = max(4, min(16 if tier == "quick" else 48, 400 // len(gaps)))
        fjobs = [dict(kind="fallback", module=modname, harness=t["harness"], params=t["params"], inputs={}, sample=k,
                      label="fallback", path_outcome="?") for t in gaps.values() for k in range(per)]
        n_fallback = len(fjobs)
        for _, cr in run_parallel([("conc", j) for j in fjobs], nproc):
            j = cr["job"]
            if cr["error"] or not cr["failures"]:
                continue
            key = (j["harness"], json.dumps(j["params"], sort_keys=True, default=str), "fallback")
            g = cand_groups.setdefault(key, dict(job=j, confirmed=None, tries=0))
            g["tries"] += 1
            if g["confirmed"] is None:
                cr["job"] = dict(j, inputs=cr.get("inputs_used", {}))
                g["confirmed"] = cr
        # fidelity replays of these instances that already showed failing obligations on the real code count as well
        for cr in conc_results:
            j = cr["job"]
            if j["kind"] == "fidelity" and not cr["error"] and cr["failures"] \
                    and (j["harness"], json.dumps(j["params"], sort_keys=True, default=str)) in gaps:
                key = (j["harness"], json.dumps(j["params"], sort_keys=True, default=str), "fallback")
                g = cand_groups.setdefault(key, dict(job=j, confirmed=None, tries=0))
                if g["confirmed"] is None:
                    g["confirmed"] = cr
    per_instance = {}
    for key, g in cand_groups.items():
        j = g["job"]
        if g["confirmed"] is None:
            unconfirmed.append(dict(harness=j["harness"], params=j["params"], label=j["label"],
                                    inputs=_frac_json(j["inputs"])))
            continue
        cr = g["confirmed"]
        # every obligation that fails in the concrete replay is a reproduced violation; each is matched against the
        # known findings separately, so that a new failure next to a known one is still reported
        new_fail = []
        for (lab, det) in cr["failures"]:
            k = match_known(known, prop, j["harness"], lab, j["params"])
            if k is not None:
                known_hits.setdefault((k["property"], k["what"]), 0)
                known_hits[(k["property"], k["what"])] += 1
            else:
                new_fail.append((lab, det))
        if new_fail:
            inst = per_instance.setdefault((key[0], key[1]), dict(job=j, failures={}, inputs=cr["job"]["inputs"]))
            for lab, det in new_fail:
                inst["failures"].setdefault(lab, det)
    for (hname, pjson), inst in per_instance.items():
        j = inst["job"]
        labs = list(inst["failures"].items())
        path = write_replay(prop, modname, j["harness"], j["params"], inst["inputs"], labs[0][0], dict(labs[:8]))
        violations.append(dict(harness=j["harness"], label=labs[0][0], replay=path, detail=dict(labs[:4]),
                               n_failing_obligations=len(labs), params=j["params"]))

    # ---- vacuity: every harness must reach at least one obligation on at least one path
    vacuous = []
    for r in sym_results:
        if r["error"]:
            continue
        n_ob = sum(len(pr.obligations) for pr in r["paths"])
        if n_ob == 0 and not r["task"].get("allow_no_obligation"):
            vacuous.append(r["task"]["harness"] + json.dumps(r["task"]["params"], default=str)[:80])

    samples = []
    for r in sym_results[:]:
        for pr in r["paths"][:1]:
            obs = [dict(label=l, status=s, kind=k) for (l, s, k, tt, d) in pr.obligations[:3]]
            samples.append(dict(harness=r["task"]["harness"], params=r["task"]["params"], path_outcome=pr.outcome,
                                decisions=len(pr.trace), obligations=obs,
                                witness_inputs=_frac_json(pr.fidelity[0]) if pr.fidelity else None))
        if len(samples) >= 6:
            break

    per_harness = {}
    for r in sym_results:
        h = per_harness.setdefault(r["task"]["harness"], dict(instances=0, paths=0, exhaustive_instances=0,
                                                               obligations=0, wall_s=0.0))
        h["instances"] += 1
        h["paths"] += len(r["paths"])
        h["exhaustive_instances"] += 1 if r["exhaustive"] else 0
        h["obligations"] += sum(len(pr.obligations) for pr in r["paths"])
        h["wall_s"] = round(h["wall_s"] + r["wall_s"], 2)

    distinct_paths = len(set((r["task"]["harness"], json.dumps(r["task"]["params"], sort_keys=True, default=str),
                              str(pr.trace)) for r in sym_results for pr in r["paths"] if pr.trace))
    level = getattr(mod, "LEVEL", "model_checking")
    coverage = dict(
        states=max(n_paths, 0), transitions=max(agg.get("queries", 0), 0),
        traces_validated_against_impl=fid_ok + sum(1 for g in cand_groups.values() if g["confirmed"]),
        samples=samples or [dict(note="no path completed")],
        evaluations=n_paths, distinct_nontrivial=distinct_paths,
        rule="one evaluation = one explored path (decision sequence) of one harness instance; distinct = distinct "
             "(harness, parameters, decision sequence) with at least one symbolic decision",
        exhaustive=all(r["exhaustive"] for r in sym_results) and not errors,
        harness_instances=len(tasks), harnesses=per_harness,
        paths=n_paths, path_outcomes=outcomes,
        obligations=agg.get("obligations", 0),
        discharged_syntactic=agg.get("syntactic", 0), discharged_solver_unsat=agg.get("unsat", 0),
        concrete_obligations_ok=agg.get("concrete_ok", 0),
        solver_sat=agg.get("sat", 0), inconclusive=agg.get("inconclusive", 0),
        inconclusive_labels=sorted(set(inconclusive))[:40],
        solver_queries=agg.get("queries", 0), solver_time_s=round(agg.get("solver_s", 0.0), 2),
        decisions=agg.get("decisions", 0), aborted_paths=agg.get("aborted", 0),
        unknown_branches=agg.get("unknown_branch", 0) + agg.get("unknown_pc", 0),
        int_out_of_range=agg.get("int_out_of_range", 0),
        fidelity_cells_ill_conditioned_skipped=agg.get("fidelity_cells_ill_conditioned", 0),
        fidelity_skipped_no_interior_witness=agg.get("fidelity_skipped_no_interior_witness", 0),
        discharged_by_rewriting=agg.get("discharged_by_rewriting", 0), boundary_only_candidates_dropped=agg.get("boundary_only", 0),
        non_exhaustive_instances=[f"{r['task']['harness']} {json.dumps(r['task']['params'], default=str)[:100]}"
                                  for r in sym_results if not r["exhaustive"]][:20],
        fidelity_replays_ok=fid_ok, fidelity_replays_bad=fid_bad[:10],
        float_order_cells_checked_bit_for_bit=fid_float_checked,
        counterexamples_replayed=len(cand_groups), counterexamples_confirmed=sum(1 for g in cand_groups.values() if g["confirmed"]),
        unconfirmed_candidates=unconfirmed[:10],
        fallback_concrete_runs=n_fallback,
        known_findings_matched=[dict(property=p, what=w, hits=n) for (p, w), n in known_hits.items()],
        functions_encoded=functions, bounds=getattr(mod, "BOUNDS", {}), stubs=_stub_list(),
        engine_counters=merged_counters,
        vacuous_harnesses=vacuous, errors=[e[-600:] for e in errors[:5]],
    )
    ev = dict(property_id=prop, tier=tier, seed=seed, level=level, coverage=coverage,
              assumptions=list(getattr(mod, "ASSUMPTIONS", [])) + COMMON_ASSUMPTIONS,
              wall_s=round(time.time() - t_start, 2), violations=len(violations))
    os.makedirs(os.path.join(VERIF, "evidence"), exist_ok=True)
    with open(os.path.join(VERIF, "evidence", f"{prop}.json"), "w") as f:
        json.dump(ev, f, indent=1, default=str)

    # ---- verdict
    for (p, w), n in known_hits.items():
        print(f"KNOWN-FINDING: property={p} {w}")
    for v in violations:
        print(f"VIOLATION property={prop} replay={v['replay']}")
        print(f"  harness={v['harness']} params={json.dumps(v['params'], default=str)[:160]} failing-obligations={v['n_failing_obligations']}"
              f" first={json.dumps(v['detail'], default=str)[:260]}")
    print(f"[{prop}] tier={tier} harness-instances={len(tasks)} paths={n_paths} obligations={agg.get('obligations', 0)} "
          f"(syntactic {agg.get('syntactic', 0)}, unsat {agg.get('unsat', 0)}, concrete {agg.get('concrete_ok', 0)}, "
          f"sat {agg.get('sat', 0)}, inconclusive {agg.get('inconclusive', 0)}) queries={agg.get('queries', 0)} "
          f"solver={agg.get('solver_s', 0):.1f}s fidelity ok/bad={fid_ok}/{len(fid_bad)} "
          f"exhaustive={coverage['exhaustive']} wall={time.time() - t_start:.1f}s")
    if violations:
        return EXIT_VIOLATION
    if getattr(mod, "UNCONFIRMED_OK", False) and unconfirmed:
        for uc in unconfirmed[:5]:
            print("UNCONFIRMED-CANDIDATE (logged only, see the check's assumptions):", json.dumps(uc, default=str)[:300])
        unconfirmed = []
    if errors or unconfirmed or fid_bad or vacuous:
        for e in errors[:3]:
            print("ENGINE-ERROR:", e[-1500:])
        for uc in unconfirmed[:5]:
            print("UNCONFIRMED-CANDIDATE (solver model did not reproduce on the real code):", json.dumps(uc, default=str)[:400])
        for fb in fid_bad[:5]:
            print("FIDELITY-MISMATCH:", json.dumps(fb, default=str)[:600])
        for v in vacuous[:5]:
            print("VACUOUS-HARNESS:", v)
        return EXIT_ERROR
    return EXIT_OK


def _stub_list():
    from sx import stubs
    return stubs.STUB_LIST


COMMON_ASSUMPTIONS = [
    "real-number reading of the float program: obligations are decided over exact reals; float constants met by a "
    "proxy are read as the rational they denote (sx.core.float_to_fraction); rounding-level differences are outside "
    "every equality claim (concrete replays use rtol 1e-9)",
    "round(x, n) on a proxy is round-half-up; Python/numpy round half to even; they differ only on exact ties",
    "object structure, time stamps, time zones and edit kinds are concrete per harness instance (enumerated family)",
    "trusted: z3 4.x/5.x (wheel) as decision procedure; pint, pandas, pint-pandas, numpy object-dtype loops executing "
    "the proxies faithfully (checked per run by fidelity replays against the unstubbed code)",
]


def main(argv=None):
    import argparse
    ap = argparse.ArgumentParser()
    ap.add_argument("property")
    ap.add_argument("--tier", default=os.environ.get("VERIF_TIER", "quick"))
    ap.add_argument("--replay")
    ap.add_argument("--jobs", type=int, default=0)
    a = ap.parse_args(argv)
    if a.replay:
        sys.exit(replay_file(a.replay))
    seed = int(os.environ.get("VERIF_SEED", "0") or 0)
    sys.exit(run_property(a.property.lower(), a.tier, seed, a.jobs or None))


if __name__ == "__main__":
    main()
