"""Harness-side stubs (DESIGN §3.6).  Everything here is applied from outside /repo by setting module attributes;
`install()` / `uninstall()` are symmetric so that concrete replays run on the untouched modules."""
import builtins
import logging
import sys
import uuid as _uuid

import numpy as _np
import z3

from .core import Sym, SymInt, to_z3, CTX

_INSTALLED = []
_STATE = {"installed": False, "uuid_counter": 0, "merge": True}


class _Float:
    """`float` shadow: identity on proxies, builtin otherwise."""

    def __call__(self, x=0.0):
        if isinstance(x, Sym):
            return x
        return builtins.float(x)

    def __instancecheck__(self, inst):
        return isinstance(inst, builtins.float)


class _FloatMeta(type):
    def __instancecheck__(cls, inst):
        return isinstance(inst, builtins.float)

    def __call__(cls, x=0.0):
        if isinstance(x, Sym):
            return x
        return builtins.float(x)


class float_shadow(metaclass=_FloatMeta):
    pass


def _has_sym(*arrays):
    for a in arrays:
        if isinstance(a, Sym):
            return True
        if isinstance(a, _np.ndarray) and a.dtype == object:
            for x in a.ravel():
                if isinstance(x, Sym):
                    return True
    return False


class NPProxy:
    """numpy module proxy: object-array friendly `full`, Ite-merging element-wise maximum/minimum."""

    def __getattr__(self, n):
        return getattr(_np, n)

    @staticmethod
    def _ew(a, b, pick_ge):
        a = _np.asarray(a, dtype=object)
        b = _np.asarray(b, dtype=object)
        a, b = _np.broadcast_arrays(a, b)
        out = _np.empty(a.shape, dtype=object)
        for i in _np.ndindex(a.shape):
            x, y = to_z3(a[i]), to_z3(b[i])
            if x.eq(y):
                out[i] = a[i]
            else:
                out[i] = Sym(z3.If(x >= y, x, y) if pick_ge else z3.If(x <= y, x, y))
        return out

    def maximum(self, a, b, *args, **kw):
        if _STATE["merge"] and not args and not kw and _has_sym(a, b):
            CTX().count("merged_maximum")
            return self._ew(a, b, True)
        return _np.maximum(a, b, *args, **kw)

    def minimum(self, a, b, *args, **kw):
        if _STATE["merge"] and not args and not kw and _has_sym(a, b):
            CTX().count("merged_minimum")
            return self._ew(a, b, False)
        return _np.minimum(a, b, *args, **kw)

    def full(self, shape, fill_value, *args, **kw):
        mag = getattr(fill_value, "magnitude", fill_value)
        if isinstance(mag, Sym) or isinstance(fill_value, Sym) or (
                isinstance(fill_value, float) and CTX_symbolic()):
            a = _np.empty(shape, dtype=object)
            if hasattr(fill_value, "units") and hasattr(fill_value, "magnitude"):
                # np.full(n, Quantity): numpy would take the magnitude of a dimensionless quantity
                a[...] = fill_value.magnitude if str(fill_value.units) == "dimensionless" else fill_value
            else:
                a[...] = fill_value
            return a
        return _np.full(shape, fill_value, *args, **kw)


def CTX_symbolic():
    from . import core
    c = core._CTX[0]
    return c is not None and c.symbolic


def _uuid4():
    _STATE["uuid_counter"] += 1
    return _FakeUUID(_STATE["uuid_counter"])


class _FakeUUID:
    def __init__(self, n):
        self.n = n

    def __str__(self):
        return f"{self.n:06x}-0000-4000-8000-000000000000"


def reset_uuid(start=0):
    _STATE["uuid_counter"] = start


def deterministic_ids():
    """uuid4 -> counter from 0 (kept through uninstall(): replays must see the ids of the symbolic run)"""
    import efootprint.abstract_modeling_classes.modeling_object as mo
    if not _STATE.get("orig_uuid4"):
        _STATE["orig_uuid4"] = mo.uuid.uuid4
    mo.uuid.uuid4 = _uuid4
    reset_uuid()


def _set(mod, name, value):
    had = hasattr(mod, name)
    old = getattr(mod, name, None)
    _INSTALLED.append((mod, name, had, old))
    setattr(mod, name, value)


def quiet():
    from efootprint.logger import logger
    logger.setLevel(logging.CRITICAL)
    logging.disable(logging.CRITICAL)


def install(merge=True, deterministic_uuid=True):
    if _STATE["installed"]:
        _STATE["merge"] = merge
        return
    quiet()
    import efootprint.abstract_modeling_classes.explainable_objects as eo
    import efootprint.builders.time_builders as tb
    import efootprint.core.hardware.server_base as sb
    import efootprint.core.hardware.storage as st
    import efootprint.abstract_modeling_classes.modeling_update as mu
    import efootprint.abstract_modeling_classes.modeling_object as mo
    npx = NPProxy()
    _set(eo, "float", float_shadow)
    for m in (eo, tb, sb, st):
        _set(m, "np", npx)
    if deterministic_uuid:
        _set(mo.uuid, "uuid4", _uuid4)
    _STATE["installed"] = True
    _STATE["merge"] = merge


def uninstall():
    _STATE["ndset"] = False
    while _INSTALLED:
        mod, name, had, old = _INSTALLED.pop()
        if had:
            setattr(mod, name, old)
        else:
            delattr(mod, name)
    _STATE["installed"] = False


class NDSet:
    """`set` shadow (C19): same content semantics, but the iteration order of the first `budget` sets holding >= 2
    distinct elements is an engine choice (every order explored); later sets iterate in insertion order."""
    budget = [0]
    rank = []

    def __init__(self, it=()):
        self._l = []
        for x in it:
            self.add(x)

    def add(self, x):
        if not any(x == y for y in self._l):
            self._l.append(x)

    def update(self, *its):
        for it in its:
            for x in it:
                self.add(x)

    def __or__(self, o):
        r = NDSet(self._l)
        r.update(o)
        return r

    __ror__ = __or__

    def __ior__(self, o):
        self.update(o)
        return self

    def __sub__(self, o):
        return NDSet([x for x in self._l if not any(x == y for y in o)])

    def __and__(self, o):
        return NDSet([x for x in self._l if any(x == y for y in o)])

    def __iter__(self):
        """Iteration follows one global ranking of the objects (like hash order does, consistently across sets); the
        position of each newly met object in that ranking is an engine choice while the budget lasts."""
        l = list(self._l)
        if len(l) < 2:
            return iter(l)
        rank = NDSet.rank
        for x in l:
            key = getattr(x, "id", None)
            if not isinstance(key, str):
                continue
            if key not in rank:
                if NDSet.budget[0] > 0 and len(rank) > 0:
                    NDSet.budget[0] -= 1
                    pos = CTX().choose(len(rank) + 1, "rank of an object in set iteration order")
                    CTX().count("set_order_choices")
                else:
                    pos = len(rank)
                rank.insert(pos, key)
        def k(x):
            key = getattr(x, "id", None)
            return rank.index(key) if isinstance(key, str) and key in rank else len(rank)
        return iter(sorted(l, key=k))

    def __len__(self):
        return len(self._l)

    def __contains__(self, x):
        return any(x == y for y in self._l)

    def __eq__(self, o):
        try:
            return len(self) == len(o) and all(x in o for x in self._l)
        except TypeError:
            return False

    def __repr__(self):
        return "NDSet(" + repr(self._l) + ")"


def install_ndset(budget):
    """shadow `set` in every efootprint module (module attribute), with `budget` explored iteration orders per run"""
    import sys
    NDSet.budget[0] = budget
    NDSet.rank = []
    if _STATE.get("ndset"):
        return
    for name, mod in list(sys.modules.items()):
        if name.startswith("efootprint.") and mod is not None:
            _set(mod, "set", NDSet)
    _STATE["ndset"] = True


def uninstall_ndset():
    _STATE["ndset"] = False


STUB_LIST = [
    "explainable_objects.float -> identity on proxies (to_json / value_as_float_list)",
    "np.full -> object array when the fill value is a proxy (time_builders, server_base, storage)",
    "np.maximum/np.minimum on proxy arrays -> element-wise Ite merge (explainable_objects.np_compared_with)",
    "uuid.uuid4 -> deterministic counter (path replay; kept in the concrete replays so that id-dependent set orders reproduce)",
    "logging disabled",
    "C19 only: `set` shadowed in efootprint modules by a list-backed set whose iteration order is an engine choice",
]
