"""Harness-side stubs (DESIGN §3.6).  Everything here is applied from outside /repo by setting module attributes;
`install()` / `uninstall()` are symmetric so that concrete replays run on the untouched modules."""
import builtins
import logging
import sys
import uuid as _uuid

import numpy as _np
import z3

from .core import Sym, SymInt, to_z3, CTX

_INSTALLED = []
_STATE = {"installed": False, "uuid_counter": 0, "merge": True}


class _Float:
    """`float` shadow: identity on proxies, builtin otherwise."""

    def __call__(self, x=0.0):
        if isinstance(x, Sym):
            return x
        return builtins.float(x)

    def __instancecheck__(self, inst):
        return isinstance(inst, builtins.float)


class _FloatMeta(type):
    def __instancecheck__(cls, inst):
        return isinstance(inst, builtins.float)

    def __call__(cls, x=0.0):
        if isinstance(x, Sym):
            return x
        return builtins.float(x)


class float_shadow(metaclass=_FloatMeta):
    pass


def _has_sym(*arrays):
    for a in arrays:
        if isinstance(a, Sym):
            return True
        if isinstance(a, _np.ndarray) and a.dtype == object:
            for x in a.ravel():
                if isinstance(x, Sym):
                    return True
    return False


class NPProxy:
    """numpy module proxy: object-array friendly `full`, Ite-merging element-wise maximum/minimum."""

    def __getattr__(self, n):
        return getattr(_np, n)

    @staticmethod
    def _ew(a, b, pick_ge):
        a = _np.asarray(a, dtype=object)
        b = _np.asarray(b, dtype=object)
        a, b = _np.broadcast_arrays(a, b)
        out = _np.empty(a.shape, dtype=object)
        for i in _np.ndindex(a.shape):
            x, y = to_z3(a[i]), to_z3(b[i])
            if x.eq(y):
                out[i] = a[i]
            else:
                out[i] = Sym(z3.If(x >= y, x, y) if pick_ge else z3.If(x <= y, x, y))
        return out

    def maximum(self, a, b, *args, **kw):
        if _STATE["merge"] and not args and not kw and _has_sym(a, b):
            CTX().count("merged_maximum")
            return self._ew(a, b, True)
        return _np.maximum(a, b, *args, **kw)

    def minimum(self, a, b, *args, **kw):
        if _STATE["merge"] and not args and not kw and _has_sym(a, b):
            CTX().count("merged_minimum")
            return self._ew(a, b, False)
        return _np.minimum(a, b, *args, **kw)

    def full(self, shape, fill_value, *args, **kw):
        mag = getattr(fill_value, "magnitude", fill_value)
        if isinstance(mag, Sym) or isinstance(fill_value, Sym) or (
                isinstance(fill_value, float) and CTX_symbolic()):
            a = _np.empty(shape, dtype=object)
            if hasattr(fill_value, "units") and hasattr(fill_value, "magnitude"):
                # np.full(n, Quantity): numpy would take the magnitude of a dimensionless quantity
                a[...] = fill_value.magnitude if str(fill_value.units) == "dimensionless" else fill_value
            else:
                a[...] = fill_value
            return a
        return _np.full(shape, fill_value, *args, **kw)


def CTX_symbolic():
    from . import core
    c = core._CTX[0]
    return c is not None and c.symbolic


def _uuid4():
    _STATE["uuid_counter"] += 1
    return _FakeUUID(_STATE["uuid_counter"])


class _FakeUUID:
    def __init__(self, n):
        self.n = n

    def __str__(self):
        return f"{self.n:06x}-0000-4000-8000-000000000000"


def reset_uuid(start=0):
    _STATE["uuid_counter"] = start


def _set(mod, name, value):
    had = hasattr(mod, name)
    old = getattr(mod, name, None)
    _INSTALLED.append((mod, name, had, old))
    setattr(mod, name, value)


def quiet():
    from efootprint.logger import logger
    logger.setLevel(logging.CRITICAL)
    logging.disable(logging.CRITICAL)


def install(merge=True, deterministic_uuid=True):
    if _STATE["installed"]:
        _STATE["merge"] = merge
        return
    quiet()
    import efootprint.abstract_modeling_classes.explainable_objects as eo
    import efootprint.builders.time_builders as tb
    import efootprint.core.hardware.server_base as sb
    import efootprint.core.hardware.storage as st
    import efootprint.abstract_modeling_classes.modeling_update as mu
    import efootprint.abstract_modeling_classes.modeling_object as mo
    npx = NPProxy()
    _set(eo, "float", float_shadow)
    for m in (eo, tb, sb, st):
        _set(m, "np", npx)
    if deterministic_uuid:
        _set(mo.uuid, "uuid4", _uuid4)
    _STATE["installed"] = True
    _STATE["merge"] = merge


def uninstall():
    while _INSTALLED:
        mod, name, had, old = _INSTALLED.pop()
        if had:
            setattr(mod, name, old)
        else:
            delattr(mod, name)
    _STATE["installed"] = False


STUB_LIST = [
    "explainable_objects.float -> identity on proxies (to_json / value_as_float_list)",
    "np.full -> object array when the fill value is a proxy (time_builders, server_base, storage)",
    "np.maximum/np.minimum on proxy arrays -> element-wise Ite merge (explainable_objects.np_compared_with)",
    "uuid.uuid4 -> deterministic counter (path replay)",
    "logging disabled",
]
