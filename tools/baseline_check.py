#!/usr/bin/env python3
"""Runs the repository's pinned test command (BASELINE.json) and checks that every stable-pass test still passes."""
import json, subprocess, sys, tempfile, os, xml.etree.ElementTree as ET
b = json.load(open("/root/.vp/BASELINE.json"))
out = tempfile.mktemp(suffix=".xml")
cmd = b["cmd"].replace("<file>", out)
env = dict(os.environ)
env.pop("BOAVIZTA_E_FOOTPRINT_VERIF", None)
subprocess.run(cmd, shell=True, stdout=subprocess.DEVNULL, stderr=subprocess.DEVNULL, env=env)
passed = set()
for tc in ET.parse(out).getroot().iter("testcase"):
    if not any(ch.tag in ("failure", "error", "skipped") for ch in tc):
        passed.add(f"{tc.get('classname')}::{tc.get('name')}")
os.remove(out)
missing = [t for t in b["stable_pass"] if t not in passed]
print(f"stable_pass={len(b['stable_pass'])} passing_now={len(passed)} missing={len(missing)}")
for m in missing[:20]:
    print("  MISSING", m)
sys.exit(1 if missing else 0)
