#!/usr/bin/env python3
"""collect_round.py <logdir> <round text> <seed id>... : writes /verif/seeded/<id>/meta.json for seeds whose files
(patch.diff, demo.py, notes.md) are already in place, from <logdir>/verify_<tag>.json (tools/verify_seed.py),
<logdir>/first_<tag>.log (quick check of a /verif snapshot taken before the round) and <logdir>/final_<tag>.log (final
quick check), both written by tools/run_seed_wt.sh.  <tag> is the seed id without the round prefix and the trailing _1
(r7_C02b_1 -> C02b)."""
import json, os, re, sys

logdir, rnd, sids = sys.argv[1], sys.argv[2], sys.argv[3:]


def parse(path):
    if not os.path.exists(path):
        return None
    lines = open(path, errors="replace").read().splitlines()
    m = next((re.match(r"SEED (\S+) check=(C\d\d) exit=(\d+)", l) for l in reversed(lines) if l.startswith("SEED ")), None)
    if not m:
        return None
    ec = int(m.group(3))
    return m.group(2), dict(exit=ec, verdict="VIOLATION" if ec == 1 else "missed" if ec == 0 else f"engine error (exit {ec})",
                            summary=next((l.strip()[:300] for l in lines if l.startswith("[C")), ""))


for sid in sids:
    tag = re.sub(r"^r\d+_", "", sid).rsplit("_", 1)[0]
    prop = re.search(r"C\d\d", sid).group(0)
    dst = f"/verif/seeded/{sid}"
    v = json.load(open(f"{logdir}/verify_{tag}.json"))
    assert v["confirmed"], sid
    notes = open(f"{dst}/notes.md", errors="replace").read()
    title = re.sub(r"^#+\s*", "", notes.strip().splitlines()[0])
    m = re.search(r"(?is)(what (?:it|exactly it) needs[^\n]*\n.*?)(\n#|\n\*\*[A-Z]|\Z)", notes)
    needs = re.sub(r"\s+", " ", m.group(1) if m else notes)[:900]
    first, final = parse(f"{logdir}/first_{tag}.log"), parse(f"{logdir}/final_{tag}.log")
    meta = dict(seed=sid, property=prop, round=rnd, summary=title,
                written_by="independent sub-agent given only the property text and a scratch worktree",
                needs_to_manifest=needs,
                confirmation=dict(ran="in a scratch worktree: demo.py on the clean tree (exit 0 expected), git apply patch.diff, "
                                  "demo.py again (exit 1 expected), pinned test command of BASELINE.json with the patch (all 284 "
                                  "stable-pass tests must pass)", demo_clean_exit=v["demo_clean_exit"],
                                  demo_patched_exit=v["demo_patched_exit"], tests_stable_pass_still_pass=v.get("tests_ok")),
                rebased=None,
                first_run={first[0]: {k: first[1][k] for k in ("exit", "verdict")}} if first else {},
                checks_run={final[0]: final[1]} if final else ({first[0]: first[1]} if first and first[1]["exit"] == 1 else {}),
                how_checks_were_run="tools/run_seed_wt.sh <seed dir> <property> quick <scratch worktree> (worktree reset to /repo's HEAD, "
                "patch applied, quick check with VERIF_REPO on the worktree, worktree reset); first_run used a snapshot of /verif "
                "taken before the round (git worktree of the commit preceding it).",
                detected_by=[k for k, e in ((final or first or (None, {}))[0:1] and [(final or first)]) if e["exit"] == 1],
                retired=None, note=None)
    json.dump(meta, open(f"{dst}/meta.json", "w"), indent=1)
    print(sid, meta["first_run"], {k: e["verdict"] for k, e in meta["checks_run"].items()})
