#!/usr/bin/env python3
"""Copies the confirmed seeded changes from /tmp/seed into /verif/seeded/<id>/ (patch.diff, demo.py, notes.md, meta.json).

usage: collect_seeds.py --first LOG... --final LOG...
meta.json: property, round, what it needs to manifest (from the author's notes), what was run to confirm it, the verdict
of the property's quick check when the change was first tried (`first_run`, earliest entry of the --first logs) and of
the final checks (`checks_run`, latest entry of the --final logs)."""
import glob, json, os, re, shutil, sys

first_logs, final_logs, cur = [], [], None
for a in sys.argv[1:]:
    if a in ("--first", "--final"):
        cur = first_logs if a == "--first" else final_logs
    else:
        cur.append(a)


def parse(logs, keep):
    got = {}
    for lg in logs:
        if not os.path.exists(lg):
            continue
        cur_lines = []
        for line in open(lg, errors="replace"):
            m = re.match(r"SEED ((?:r\d\w?_)?C\d\d_\d) check=(C\d\d) exit=(\d+)", line)
            if m:
                sid, chk, ec = m.group(1), m.group(2), int(m.group(3))
                entry = dict(exit=ec, violation_lines=sum(1 for l in cur_lines if l.startswith("VIOLATION")),
                             summary=next((l.strip()[:300] for l in cur_lines if l.startswith("[C")), ""))
                d = got.setdefault(sid, {})
                if keep == "last" or chk not in d:
                    d[chk] = entry
                cur_lines = []
            elif line.startswith("SEED "):
                cur_lines = []
            else:
                cur_lines.append(line)
    return got


def verdict(ec):
    return "VIOLATION" if ec == 1 else "missed" if ec == 0 else f"engine error (exit {ec})"


first, final = parse(first_logs, "first"), parse(final_logs, "last")
out_root = "/verif/seeded"
os.makedirs(out_root, exist_ok=True)
rows = []
for sd in sorted(glob.glob("/tmp/seed/*C??_?")):
    sid = os.path.basename(sd)
    if not re.fullmatch(r"(r\d\w?_)?C\d\d_\d", sid):
        continue
    vf = f"{sd}.verify.json"
    try:
        v = json.load(open(vf))
    except Exception:
        continue
    retired = os.path.exists(os.path.join(sd, "RETIRED.txt"))
    stale = os.path.exists(os.path.join(sd, "DEMO_STALE.txt"))
    if not v.get("confirmed") and not retired and not stale:
        continue
    prop = re.search(r"C\d\d", sid).group(0)
    dst = os.path.join(out_root, sid)
    os.makedirs(dst, exist_ok=True)
    for f in ("patch.diff", "demo.py", "notes.md", "patch.orig.diff", "RETIRED.txt", "DEMO_STALE.txt"):
        if os.path.exists(os.path.join(sd, f)):
            shutil.copy(os.path.join(sd, f), os.path.join(dst, f))
    notes = open(os.path.join(sd, "notes.md"), errors="replace").read() if os.path.exists(os.path.join(sd, "notes.md")) else ""
    title = re.sub(r"^#+\s*", "", notes.strip().splitlines()[0]) if notes.strip() else ""
    m = re.search(r"(?is)(what (?:it|exactly it) needs[^\n]*\n.*?)(\n#|\n\*\*[A-Z]|\Z)", notes)
    needs = re.sub(r"\s+", " ", m.group(1) if m else notes)[:900]
    rnd = "2 (held out: written after the checks had been strengthened on round 1)" if sid.startswith("r2") else \
        "3 (written for the tree that contains the rollback fix)" if sid.startswith("r3") else \
        "4 (held out: one change per property, after the systematic widening)" if sid.startswith("r4") else \
        "5 (held out: one change per property, authors asked for trigger kinds not used before)" if sid.startswith("r5") else \
        "6 (held out: twelve properties, same brief as round 5, after the round-5 extensions)" if sid.startswith("r6") else "1"
    fr, fn = first.get(sid, {}), final.get(sid, {})
    meta = dict(seed=sid, property=prop, round=rnd, summary=title,
                written_by="independent sub-agent given only the property text and a scratch worktree",
                needs_to_manifest=needs,
                confirmation=dict(ran="in a scratch worktree: demo.py on the clean tree (exit 0 expected), git apply patch.diff, demo.py again (exit 1 expected), pinned test command of BASELINE.json with the patch (all 284 stable-pass tests must pass)",
                                  demo_clean_exit=v["demo_clean_exit"], demo_patched_exit=v["demo_patched_exit"],
                                  tests_stable_pass_still_pass=v.get("tests_ok")),
                rebased="patch.orig.diff is the author's patch; patch.diff is the same change rebased by hand on a later fix: commit" if os.path.exists(os.path.join(sd, "patch.orig.diff")) else None,
                first_run={k: dict(exit=r["exit"], verdict=verdict(r["exit"])) for k, r in fr.items()},
                checks_run={k: dict(exit=r["exit"], verdict=verdict(r["exit"]), summary=r["summary"]) for k, r in fn.items()},
                how_checks_were_run="tools/run_seed_wt.sh <seed dir> <property> quick <scratch worktree>: the worktree is reset to /repo's HEAD, "
                                    "patch.diff applied with git apply, the property's quick check run with VERIF_REPO pointing at the worktree "
                                    "(exit 1 + VIOLATION line = caught), the worktree reset again; /repo itself is never modified. first_run for "
                                    "rounds 4 and 5 used a snapshot of /verif taken before any change driven by that round.",
                detected_by=[k for k, r in fn.items() if r["exit"] == 1],
                retired=open(os.path.join(sd, "RETIRED.txt")).read().strip() if retired else None,
                note=open(os.path.join(sd, "DEMO_STALE.txt")).read().strip() if stale else None)
    json.dump(meta, open(os.path.join(dst, "meta.json"), "w"), indent=1)
    rows.append((sid, {k: r["exit"] for k, r in fr.items()}, {k: r["exit"] for k, r in fn.items()}))
for r in rows:
    print(r)
