#!/usr/bin/env python3
"""Copies the confirmed seeded changes from /tmp/seed into /verif/seeded/<id>/ (patch.diff, demo.py, notes.md, meta.json).
meta.json: property, what it needs to manifest (from the author's notes), what was run to confirm it, and which check
caught it (from the run logs given on the command line, later logs override earlier ones)."""
import glob, json, os, re, shutil, sys
logs = sys.argv[1:]
caught = {}
for lg in logs:
    if not os.path.exists(lg):
        continue
    cur_lines = []
    for line in open(lg, errors="replace"):
        m = re.match(r"SEED (C\d\d_\d) check=(C\d\d) exit=(\d+)", line)
        if m:
            sid, chk, ec = m.group(1), m.group(2), int(m.group(3))
            caught.setdefault(sid, {})[chk] = dict(exit=ec, violation_lines=sum(1 for l in cur_lines if l.startswith("VIOLATION")),
                                                   summary=next((l.strip()[:300] for l in cur_lines if l.startswith("[C")), ""))
            cur_lines = []
        else:
            cur_lines.append(line)
out_root = "/verif/seeded"
os.makedirs(out_root, exist_ok=True)
rows = []
for sd in sorted(glob.glob("/tmp/seed/C??_?")):
    sid = os.path.basename(sd)
    vf = f"{sd}.verify.json"
    if not os.path.exists(vf):
        continue
    try:
        v = json.load(open(vf))
    except Exception:
        continue
    if not v.get("confirmed"):
        continue
    dst = os.path.join(out_root, sid)
    os.makedirs(dst, exist_ok=True)
    for f in ("patch.diff", "demo.py", "notes.md", "patch.orig.diff"):
        if os.path.exists(os.path.join(sd, f)):
            shutil.copy(os.path.join(sd, f), os.path.join(dst, f))
    notes = open(os.path.join(sd, "notes.md"), errors="replace").read() if os.path.exists(os.path.join(sd, "notes.md")) else ""
    needs = ""
    m = re.search(r"(?is)(what it needs[^\n]*\n.*?)(\n#|\n\*\*[A-Z]|\Z)", notes)
    if m:
        needs = re.sub(r"\s+", " ", m.group(1))[:900]
    else:
        needs = re.sub(r"\s+", " ", notes)[:900]
    res = caught.get(sid, {})
    meta = dict(seed=sid, property=sid.split("_")[0], written_by="independent sub-agent given only the property text and a scratch worktree",
                needs_to_manifest=needs,
                confirmation=dict(ran="tools/verify_seed.py in the scratch worktree: demo.py on the clean tree (exit 0 expected), git apply patch.diff, demo.py again (exit 1 expected), pinned test command of BASELINE.json with the patch (all 284 stable-pass tests must pass)",
                                  demo_clean_exit=v["demo_clean_exit"], demo_patched_exit=v["demo_patched_exit"], tests_stable_pass_still_pass=v.get("tests_ok")),
                checks_run={k: dict(exit=r["exit"], verdict=("VIOLATION" if r["exit"] == 1 else "missed" if r["exit"] == 0 else "engine-error (exit 2)"),
                                    summary=r["summary"]) for k, r in res.items()},
                detected_by=[k for k, r in res.items() if r["exit"] == 1])
    json.dump(meta, open(os.path.join(dst, "meta.json"), "w"), indent=1)
    rows.append((sid, meta["detected_by"], {k: r["exit"] for k, r in res.items()}))
for r in rows:
    print(r)
