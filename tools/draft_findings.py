#!/usr/bin/env python3
"""Lists, per violating harness instance in /verif/replays, the stems of the failing obligations (re-running the
replay concretely), to help writing known_findings.json entries by hand.  Never run by a check."""
import glob, json, re, subprocess, sys
prop = sys.argv[1]
for f in sorted(glob.glob(f"/verif/replays/{prop}_*.json")):
    b = json.load(open(f))
    out = subprocess.run(["/verif/check", prop, "--replay", f], capture_output=True, text=True).stdout
    try:
        res = json.loads(out[:out.rindex("}") + 1])
    except Exception:
        print(f, "unparsable", out[-300:]); continue
    stems = {}
    for lab, det in res["failures"]:
        stem = re.sub(r"\[\d\d-\d\dT\d\d\]", "", lab)
        stems.setdefault(stem, det)
    print("=" * 100)
    print(f, json.dumps(b["params"])[:400])
    print(" inputs:", json.dumps(b["inputs"])[:300])
    for s, d in stems.items():
        print("   ", s, "::", str(d)[:90])
