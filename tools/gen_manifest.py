#!/usr/bin/env python3
"""Regenerates /verif/MANIFEST.json from the table below (kept here so the manifest stays valid and consistent)."""
import json
import os

VERIF = os.path.dirname(os.path.dirname(os.path.abspath(__file__)))
TECH = "dynamic symbolic execution of the real update functions on z3-backed numeric proxies; per-path SMT obligations (z3), counterexamples replayed on the unstubbed code"
NOTE = ("Bounded: finite family of object skeletons/edit scripts/dates (concrete), hours per series and integer parts "
        "of durations bounded as stated in the evidence 'bounds'; all numeric inputs symbolic within the stated ranges. "
        "Obligations are decided over exact reals (float constants read as rationals); trusted: z3, pint/pandas/"
        "pint-pandas/numpy executing the proxies (validated each run by fidelity replays on the unstubbed code); stubs "
        "listed in evidence.coverage.stubs. ")

CHECKS = {
    # id: (category, text, extra note, design_ref, technique suffix)
}

NOT_BUILT = {}


def add(pid, category, text, note="", ref=None, technique=None):
    CHECKS[pid] = dict(category=category, text=text, note=note, ref=ref or f"DESIGN.md §5 {pid}", technique=technique)


add("C02", "model_checking",
    "Whole real systems (skeletons T1-T7, sharing topologies) are executed symbolically with traffic and cost drivers "
    "as solver variables; on every path z3 decides that the hourly total equals the sum over an independently derived "
    "ground-truth set of components (each once), that the five aggregate views agree, that each energy footprint is "
    "energy x the applicable intensity, that footprints are non-negative and that no divisor can be zero.",
    "Time zones/windows concrete per instance; plotting functions outside.")

add("C10", "model_checking",
    "Differential symbolic execution of two whole models: every quantity input a_i [U_i] is re-expressed as "
    "a_i*f [U'_i] with the exact rational factor f (one parameter at a time, and grouped per class); z3 decides on "
    "every path that every calculated attribute of every object is physically equal, and that both models are "
    "accepted or rejected alike.",
    "Unit menu in evidence.bounds.units; custom units cpu_core/gpu have no alternative spelling; accept/reject "
    "flips that exist only exactly on a branch boundary (float rounding) are outside the claim.")
add("C12", "model_checking",
    "Differential symbolic execution with a symbolic factor k>0: for each driver row of the statement and each "
    "object, the model with driver*k is built next to the original in one path exploration; z3 decides f' = k f "
    "(or f'k = f for inverse drivers, the affine form for partially driven aggregates) for the driven footprints "
    "and f' = f for every other footprint of every object; traffic scaling likewise.",
    "Driven sets are derived from the statement and the skeleton spec (harness/c12.py:_expect).")

add("C01", "model_checking",
    "Differential symbolic execution: a live system (skeletons T1-T9, TX) is edited through the real setters, list "
    "mutators and grouped ModelingUpdate with symbolic old and new values, and after every edit a system is built "
    "from scratch from the mirrored specification in the same path; z3 decides hour-by-hour equality of every "
    "calculated attribute of every reachable object, plus equality of previous_/initial_ totals with snapshots.",
    "History depth <= 4 (edit+inverse, link histories, mixed histories with simulations switched on/off and failing edits); "
    "beyond that depth the claim rests on the inductive graph invariant (live dependency graph = graph of the fresh build after "
    "every step, on skeletons without a job shared by usage patterns), not on enumeration.")
add("C03", "model_checking",
    "Symbolic execution of UsagePattern/JobBase/compute_nb_avg_hourly_occurrences inside real systems with symbolic "
    "starts, step and request durations and per-request amounts; z3 decides closed-form conservation sums and the "
    "placement of every occurrence/data/average cell against an oracle with its own floor/ceil terms.",
    "Durations bounded so that integer parts stay in 0..3; request_duration > 0.")
add("C04", "model_checking",
    "Symbolic execution of ServerBase/Storage update functions with symbolic loads, capacities, rates, fixed counts, "
    "storage duration and signs of data_stored: z3 decides the sizing inequalities/equalities per hour, that "
    "rejections happen exactly for the documented reasons, the cumulative-storage formula per time stamp, and — on "
    "the Float64 reinterpretation of the cumulative-sum DAG — whether a deletion-free model can be rejected.",
    "Float64 clause: N=3(4), inputs in {0} U [1,8], conversion factors exactly 1.0; DAG order validated bit-for-bit "
    "against the real code on the fidelity inputs.", technique=TECH + "; z3 QF_FP on the lowered DAG for the rejection clause")
add("C07", "model_checking",
    "Every node of every explanation tree produced by a symbolic run of whole systems is re-evaluated: for + - * / "
    "nodes z3 decides value(node) = op(value(left), value(right)) cell by cell in base units and pint's "
    "dimensionality algebra is compared; explain(), labels, and the nature of every leaf are checked on the same "
    "objects.", "Non-arithmetic operators are only checked structurally.")

add("C05", "model_checking",
    "Symbolic execution of ModelingUpdate(changes, simulation_date) on real systems with symbolic new values: the "
    "solver enumerates the outcomes (success, rejection by date/period checks, every raising update function reached "
    "as a feasible branch); on every path, raised or not, and after every set/reset toggle sequence, a full snapshot "
    "of the baseline is compared by object identity, by solver-checked physical value, and by graph edges/links.",
    "Dates concrete (first/interior/last/before/after/naive); change lists of 1-2 changes; toggle sequences <= 3.")
add("C06", "model_checking",
    "Differential symbolic execution: the simulated twins of a dated ModelingUpdate are compared, hour by hour and by "
    "the solver, with a second system to which the same change list is really applied; pairing of values_to_recompute/"
    "recomputed_values and twins, absence of earlier hours for interior dates, completeness of the recomputed set, and "
    "rejection of dates outside the period / naive dates.",
    "Equality clause only for the first modelled hour (as stated); shared-job skeletons excluded (known finding R1). For "
    "updates carrying several structural changes the reference is the model built from scratch with the mirrored spec "
    "(objects that the changes take out of the system are outside that comparison).")
add("C09", "model_checking",
    "Symbolic execution of the operator methods of ExplainableQuantity / ExplainableHourlyQuantities / "
    "EmptyExplainableObject themselves (no system): symbolic magnitudes and cells over a menu of units and index "
    "shapes (equal, shifted, disjoint, longer, tz-aware, same start and length with an hour missing); z3 decides the result against a per-time-stamp base-unit oracle, dimension algebra, unchanged operands, "
    "commutativity, additivity of sums, and the contracts of sum/max/abs/ceil/round/neg/shift/element-wise max-min.",
    "Unsupported operand combinations may raise; hourly subtraction only on equal indexes.")

add("C08", "model_checking",
    "Completeness: whole systems are executed with every numeric input as its own solver variable; for every (input, "
    "calculated value) pair where the variable occurs in the value's terms or in a decision taken under the value's "
    "update function, the input must be a transitive ancestor; a missing one is confirmed by a solver query (two values "
    "of that input alone give different results) and by a concrete perturbation replay. Consistency (two-sided edges, "
    "held endpoints, acyclicity, update order) is checked on the real graphs after builds, edits and simulations on "
    "every explored path, and attr_updates_chain on all DAGs with <= 5 nodes.",
    "The consistency half is a graph traversal on the states the engine reaches (no arithmetic to decide).")
add("C11", "model_checking",
    "Symbolic execution of convert_to_utc / update_utc_hourly_usage_journey_starts with one solver variable per local "
    "hour on concrete (zone, start, length): each output cell is literally the sum of the inputs that landed there; z3 "
    "decides total preservation and per-stamp placement against an oracle that localises every stamp on its own from "
    "the zone's transition table.",
    "Zones and dates are enumerated, not symbolic: quick 25 zones x their 2023-2027 transitions; thorough all pytz zones "
    "x 2000-2030. For repeated/skipped local hours the oracle accepts any admissible merge target (see DESIGN).")
add("C13", "model_checking",
    "Symbolic execution of system_to_json -> json_to_system at the dict level with symbolic inputs (hourly inputs k/1000 "
    "with k a symbolic integer): z3 decides equality of every input value, of every recomputed result of the loaded "
    "system, and of the second export; identifiers, classes, links, labels and sources are compared concretely; edits on "
    "the loaded system are compared with a fresh build; a file of the previous major version is loaded.",
    "JSON text layer outside; float() in to_json stubbed as identity on proxies.")
add("C14", "model_checking",
    "Construction and assignment are executed with a symbolic offending magnitude: z3 decides that every accepted value "
    "is non-negative (unless negatives are meaningful) and that refusals by sign validation happen only for negative "
    "values; wrong dimensions, wrong types, wrong-class list members and values outside allowed lists are enumerated per "
    "class/parameter; after every refused assignment a full snapshot comparison (identity, values, graph, links).",
    "Classes and parameters enumerated from ALL_EFOOTPRINT_CLASSES signatures; kinds of wrong type enumerated.")
add("C15", "model_checking",
    "The failing edit is found by the solver: the new value is symbolic and the raising branches of the server/storage "
    "update functions are reached as feasible decisions; on every raising path the previous value is re-assigned and "
    "the model is compared with the pre-edit snapshot (solver-checked values), then a further valid edit is compared "
    "with a system built from scratch; repeated failures included.",
    "Sequences: fail-recover and fail-fail-recover, one follow-up edit.")
add("C16", "exploration",
    "Bounded exhaustive exploration steered by the engine: list operations (assign, append, insert, extend, +=, *=, "
    "pop, remove, del, item/slice assignment, clear) on the four list links, with index and repeat-count arguments as "
    "integer proxies forked over every solver-feasible value; after each operation the list content is compared with a "
    "plain-list mirror and every reverse look-up with what the harness recomputes from forward links only; link "
    "re-pointing, self_delete and cross-system linking likewise.",
    "No arithmetic content: the solver only enumerates the integer arguments; every obligation is a concrete comparison.",
    technique="engine-steered bounded exploration of list/link operations (integer arguments forked by z3), concrete link-consistency oracle")
add("C17", "model_checking",
    "Differential symbolic execution, builder model vs plain model: numeric builder parameters and traffic are solver "
    "variables; the plain model carries the derived parameters as inputs and the service's base consumption on the "
    "server; z3 decides equality of server/storage/network/usage-pattern/system results per hour and the stated "
    "derivation rules; after editing a builder input the live model is compared with a fresh build.",
    "Categorical choices (resolutions, ecobenchmark rows, ecologits models, Boavizta instances) enumerated/sampled.")
add("C18", "model_checking",
    "After building (and after a depth-1 edit) every object is recomputed alone, in ordered pairs, through the full "
    "chain, the chain reversed and System.after_init() again; str/explain/to_json/system_to_json and the aggregate views "
    "are read; after each step a snapshot comparison decides (by z3 where values are symbolic) that every calculated "
    "value and every input kept its physical value.",
    "Every update function alone, updates carrying several changes, builder systems; inputs compared with the values given. "
    "matplotlib plots of hourly values are exercised on fully concrete systems only (C float boundary); plotly/HTML views outside; "
    "initial_total_* bookkeeping re-recorded by after_init is not a result.")
add("C19", "model_checking",
    "Differential symbolic execution across configurations of the same model: all permutations of order-irrelevant "
    "lists, other creation orders, other identifier assignments, and set iteration order as an explored engine choice "
    "(one global ranking of objects, positions forked); z3 decides equality of every calculated attribute with the "
    "reference build; real processes with different PYTHONHASHSEED are compared numerically.",
    "Set-order differences are reported only when a bounded search over real identifiers reproduces them.")
add("C20", "model_checking",
    "Symbolic execution of time_builders with symbolic values, volumes, hours and active days (integer proxies forked "
    "over 0..23 / 0..6 / 1..31 / 1..366) on concrete start dates and spans; z3 decides every cell against a pandas-free "
    "datetime oracle (Ite over the symbolic hour/day sets), length, contiguity and unit are compared concretely.",
    "Start dates/spans (hours, days, weeks, years, minutes) enumerated; linear/sinusoidal/daily fluctuation and random "
    "helpers: time line by obligations, values compared concretely with a closed form (numpy kernels are outside the encoding).")

NA_REASONS = {}


def main():
    props = [json.loads(l) for l in open(os.path.join(VERIF, "properties.jsonl"))]
    checks, na = [], []
    for p in props:
        pid = p["id"]
        if pid in CHECKS:
            c = CHECKS[pid]
            checks.append({
                "property_id": pid,
                "quick_cmd": f"./check {pid} --tier quick",
                "thorough_cmd": f"./check {pid} --tier thorough",
                "evidence_file": f"/verif/evidence/{pid}.json",
                "replay_cmd_template": f"./check {pid} --replay {{path}}",
                "engine": "sx",
                "level_claimed": {"category": c["category"], "text": c["text"], "design_ref": c["ref"]},
                "level_note": NOTE + c["note"],
                "technique": c["technique"] or TECH,
            })
        else:
            na.append({"property_id": pid, "reason": NA_REASONS.get(
                pid, "check not built yet (see DESIGN.md §5 for the planned solver-based check)")})
    man = {
        "version": 1,
        "setup_cmd": "./setup.sh",
        "hooks": {"guard": "BOAVIZTA_E_FOOTPRINT_VERIF", "enable": "no source hooks: all stubs are applied from the "
                  "harness side by setting module attributes at import time (sx/stubs.py)",
                  "baseline_off_cmd": "cd /repo && /venv/bin/python -m pytest -ra -q -p no:cacheprovider --timeout=900 "
                                      "--continue-on-collection-errors",
                  "source_commits": [], "add_only": True},
        "engines": [{"name": "sx", "path": "/verif/sx", "serves_properties": sorted(CHECKS),
                     "kind_free_text": "home-made dynamic symbolic executor: z3 Real/Int proxies used as pint "
                                       "magnitudes and pandas object cells run the real e-footprint code; exhaustive "
                                       "path exploration by prefix re-execution; SMT obligations per path; concrete "
                                       "replay of every counterexample"}],
        "checks": checks,
        "not_applicable": na,
        "notes": "All checks: ./check <ID> --tier quick|thorough. Exit 0 held / 1 VIOLATION (replayed on real code, not "
                 "a known finding) / 2 engine or harness error (never a verdict). Known findings: known_findings.json.",
    }
    with open(os.path.join(VERIF, "MANIFEST.json"), "w") as f:
        json.dump(man, f, indent=1)
    print("MANIFEST.json:", len(checks), "checks,", len(na), "not applicable")


if __name__ == "__main__":
    main()
