#!/bin/bash
# run_seed.sh <seed_dir> <PROP> [tier] : apply the seeded change to /repo, run the check, undo; prints exit code + verdict lines
sd=$1; prop=$2; tier=${3:-quick}
cd /verif
[ -z "$(git -C /repo status --short)" ] || { echo "repo not clean"; exit 9; }
git -C /repo apply "$sd/patch.diff" || { echo "patch does not apply"; exit 9; }
out=$(./check $prop --tier $tier 2>&1); ec=$?
git -C /repo checkout -- .
echo "$out" | grep -E "^VIOLATION|^KNOWN|^\[C|^ENGINE|^UNCONF|^FIDEL|^VACU" | cut -c1-300 | head -12
echo "SEED $(basename $sd) check=$prop exit=$ec"
