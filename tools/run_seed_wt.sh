#!/bin/bash
# run_seed_wt.sh <seed_dir> <PROP> [tier] [worktree] : like run_seed.sh but against a scratch worktree (VERIF_REPO),
# so that /repo stays untouched while developing.  Evidence/replays written by such runs are scratch.
sd=$1; prop=$2; tier=${3:-quick}; wt=${4:-/tmp/wt/run}
cd ${VERIF_DIR:-/verif}
git -C $wt checkout -q --detach $(git -C /repo rev-parse HEAD) && git -C $wt checkout -- . 
git -C $wt apply "$sd/patch.diff" || { echo "SEED $(basename $sd) patch does not apply"; exit 9; }
out=$(VERIF_REPO=$wt ./check $prop --tier $tier 2>&1); ec=$?
git -C $wt checkout -- .
echo "$out" | grep -E "^VIOLATION|^KNOWN|^\[C|^ENGINE|^UNCONF|^FIDEL|^VACU" | cut -c1-260 | head -8
echo "SEED $(basename $sd) check=$prop exit=$ec"
