#!/bin/bash
# seed_matrix.sh <logprefix> : runs every seeded change under /verif/seeded (or /tmp/seed while collecting) against the
# quick check of its own property, in two parallel streams on scratch worktrees; logs "SEED <id> check=<C> exit=<n>".
src=${SEED_SRC:-/verif/seeded}
log=${1:-/tmp/seed/final}
ids=$(ls $src | grep -E '^(r[0-9]_)?C[0-9][0-9]_[0-9]$')
a=(); b=(); i=0
for s in $ids; do if [ $((i%2)) -eq 0 ]; then a+=($s); else b+=($s); fi; i=$((i+1)); done
run() { wt=$1; shift; for s in "$@"; do p=$(echo $s | sed -E "s/^r[0-9]_//; s/_.*//"); VERIF_JOBS=${VERIF_JOBS:-4} /verif/tools/run_seed_wt.sh $src/$s $p quick $wt; done; }
run /tmp/wt/run "${a[@]}" > ${log}_a.log 2>&1 &
run /tmp/wt/run2 "${b[@]}" > ${log}_b.log 2>&1 &
wait
