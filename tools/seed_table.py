#!/usr/bin/env python3
"""markdown table of /verif/seeded/*/meta.json for DESIGN.md §11"""
import glob, json, os
rows = []
tot = {"1": [0, 0, 0], "2": [0, 0, 0]}
for f in sorted(glob.glob("/verif/seeded/*/meta.json"), key=lambda p: (os.path.basename(os.path.dirname(p)).startswith("r2"), p)):
    m = json.load(open(f))
    prop = m["property"]
    first = m.get("first_run", {}).get(prop)
    final = m.get("checks_run", {}).get(prop)
    r = m.get("round", "1")[0]
    tot[r][0] += 1
    tot[r][1] += bool(first and first["exit"] == 1)
    tot[r][2] += bool(final and final["exit"] == 1)
    rows.append(f"| {m['seed']} | {m.get('summary', '')[:160].replace('|', '/')} | {first['verdict'] if first else '-'} | {final['verdict'] if final else '-'} |")
print("| seed | change | quick check of its property when first tried | final quick check |\n|---|---|---|---|")
print("\n".join(rows))
print()
for r, (n, a, b) in tot.items():
    print(f"Round {r}: {n} changes, {a} caught when first tried, {b} caught by the final checks.")
