#!/usr/bin/env python3
"""markdown table of /verif/seeded/*/meta.json for DESIGN.md §11"""
import glob, json, os


def order(p):
    sid = os.path.basename(os.path.dirname(p))
    return (sid[:2] if sid.startswith("r") else "", sid)


rows = []
tot = {}
for f in sorted(glob.glob("/verif/seeded/*/meta.json"), key=order):
    m = json.load(open(f))
    prop = m["property"]
    first = m.get("first_run", {}).get(prop)
    final = m.get("checks_run", {}).get(prop)
    r = m.get("round", "1")[0]
    t = tot.setdefault(r, dict(n=0, first=0, first_err=0, final=0, retired=0))
    t["n"] += 1
    t["first"] += bool(first and first["exit"] == 1)
    t["first_err"] += bool(first and first["exit"] not in (0, 1))
    if m.get("retired"):
        t["retired"] += 1
        fin = "retired: harmless since fix 363554c, check silent"
    else:
        t["final"] += bool(final and final["exit"] == 1)
        fin = final["verdict"] if final else "-"
    rows.append(f"| {m['seed']} | {m.get('summary', '')[:150].replace('|', '/')} | {first['verdict'] if first else '-'} | {fin} |")
print("| seed | change | quick check of its property when first tried | final quick check |\n|---|---|---|---|")
print("\n".join(rows))
print()
for r, t in sorted(tot.items()):
    print(f"Round {r}: {t['n']} changes; when first tried {t['first']} caught, {t['first_err']} engine errors, "
          f"{t['n'] - t['first'] - t['first_err']} missed; final checks: {t['final']} of {t['n'] - t['retired']} live changes caught"
          + (f" ({t['retired']} retired)" if t["retired"] else "") + ".")
