#!/usr/bin/env python3
"""markdown table of /verif/seeded/*/meta.json for DESIGN.md §11"""
import glob, json, os
rows = []
for f in sorted(glob.glob("/verif/seeded/*/meta.json")):
    m = json.load(open(f))
    first = m.get("first_run", {})
    final = m.get("checks_run", {})
    def fmt(d):
        return ", ".join(f"{k}: {('VIOLATION' if v['exit'] == 1 else 'missed' if v['exit'] == 0 else 'engine error')}" for k, v in d.items()) or "-"
    rows.append(f"| {m['seed']} | {m['property']} | {m.get('summary', '')[:200]} | {fmt(first)} | {fmt(final)} |")
print("| seed | property | change (needs) | first run | final checks |\n|---|---|---|---|---|")
print("\n".join(rows))
