#!/bin/bash
# sweep.sh <seed> [props...] : run quick checks on the unchanged tree with VERIF_SEED=<seed>; print exit codes
seed=$1; shift
props=${@:-C01 C02 C03 C04 C05 C06 C07 C08 C09 C10 C11 C12 C13 C14 C15 C16 C17 C18 C19 C20}
cd /verif
for p in $props; do
  out=$(VERIF_SEED=$seed ./check $p --tier quick 2>&1); ec=$?
  echo "seed=$seed $p exit=$ec $(echo "$out" | grep -E "^\[C" | sed 's/.*paths=/paths=/' | cut -c1-170)"
  if [ $ec -ne 0 ]; then echo "$out" | grep -E "^VIOL|^  harness|^FIDEL|^UNCONF|^ENGINE|^VACU" | cut -c1-400 | head -8; fi
done
