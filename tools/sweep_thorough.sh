#!/bin/bash
# runs every thorough command once, end to end, on the unchanged tree; logs exit code and wall time
cd /verif
props=${@:-C09 C11 C12 C02 C03 C04 C07 C10 C13 C18 C17 C14 C15 C05 C06 C08 C19 C16 C20 C01}
for p in $props; do
  t0=$(date +%s)
  out=$(VERIF_JOBS=${VERIF_JOBS:-8} ./check $p --tier thorough 2>&1); ec=$?
  t1=$(date +%s)
  echo "THOROUGH $p exit=$ec wall=$((t1-t0))s $(echo "$out" | grep -E "^\[C" | sed 's/.*harness-instances=/instances=/' | cut -c1-220)"
  if [ $ec -ne 0 ]; then echo "$out" | grep -E "^VIOL|^  harness|^FIDEL|^UNCONF|^ENGINE|^VACU" | cut -c1-500 | head -10; fi
done
