#!/usr/bin/env python3
"""verify_seed.py <seed_dir> : confirms a seeded change in a scratch worktree (/tmp/wt/<ID>): demo passes without,
fails with; the pinned test-suite's stable-pass set still passes with the change.  Prints a JSON summary."""
import json, os, subprocess, sys, tempfile, xml.etree.ElementTree as ET
sd = os.path.abspath(sys.argv[1])
sid = os.path.basename(sd).split("_")[0]
wt = os.environ.get("SEED_WT") or f"/tmp/wt/{sid}"
def sh(cmd, **kw):
    return subprocess.run(cmd, shell=True, capture_output=True, text=True, **kw)
assert sh(f"git -C {wt} status --short").stdout.strip() == "", "worktree not clean"
res = {"seed": os.path.basename(sd)}
sh(f"cp {sd}/demo.py {wt}/demo.py")
r = sh(f"cd {wt} && timeout 600 /venv/bin/python demo.py")
res["demo_clean_exit"] = r.returncode
a = sh(f"git -C {wt} apply {sd}/patch.diff")
res["apply"] = a.returncode
r = sh(f"cd {wt} && timeout 600 /venv/bin/python demo.py")
res["demo_patched_exit"] = r.returncode
res["demo_patched_tail"] = (r.stdout + r.stderr)[-400:]
if "--no-tests" not in sys.argv:
    b = json.load(open("/root/.vp/BASELINE.json"))
    out = tempfile.mktemp(suffix=".xml")
    cmd = b["cmd"].replace("<file>", out).replace("cd /repo", f"cd {wt}")
    sh(cmd)
    passed = set()
    for tc in ET.parse(out).getroot().iter("testcase"):
        if not any(ch.tag in ("failure", "error", "skipped") for ch in tc):
            passed.add(f"{tc.get('classname')}::{tc.get('name')}")
    os.remove(out)
    missing = [t for t in b["stable_pass"] if t not in passed]
    res["tests_missing"] = missing[:5]
    res["tests_ok"] = not missing
sh(f"git -C {wt} checkout -- . && rm -f {wt}/demo.py && git -C {wt} clean -fdq")
res["confirmed"] = (res["demo_clean_exit"] == 0 and res["apply"] == 0 and res["demo_patched_exit"] == 1
                    and res.get("tests_ok", True))
print(json.dumps(res))
